import numpy as np, itertools, traceback, tempfile, os
from npstructures import RaggedArray, RaggedShape
def try_(f):
    try: return ('ok', f())
    except Exception as e: return ('exc', type(e).__name__, str(e)[:100])
for rows in [[], [[]], [[],[]], [[1,2],[],[3]], [[],[1]], [[1],[]]]:
    for dt in [np.int64, np.uint8, bool, np.float32]:
        print(rows, dt.__name__)
        r = try_(lambda: RaggedArray(rows, dtype=dt))
        if r[0]!='ok': print('  ctor', r); continue
        ra = r[1]
        print('  len', len(ra), 'size', ra.size, 'dtype', ra.dtype, 'lengths', ra.lengths, 'shape', try_(lambda: ra.shape))
        print('  tolist', try_(ra.tolist), 'ravel', ra.ravel())
        print('  starts', ra._shape.starts, 'ends', ra._shape.ends, 'shape.size', try_(lambda: ra._shape.size))
        def sl():
            d = tempfile.mkdtemp(); fn = os.path.join(d, 'x.npz'); ra.save(fn); r2 = RaggedArray.load(fn); return r2.tolist(), r2.dtype
        print('  saveload', try_(sl))
        print('  astype', try_(lambda: (ra.astype(np.float64).tolist(), ra.astype(np.float64).dtype)))
        print('  index_array', try_(lambda: ra._shape.index_array()))
# flat + lengths
print(try_(lambda: RaggedArray(np.arange(5), [2,3]).tolist()))
print(try_(lambda: RaggedArray(np.arange(5), [2,2]).tolist()))
print(try_(lambda: RaggedArray(np.arange(5), [2,4]).tolist()))
print(try_(lambda: RaggedArray(np.arange(0), []).tolist()))
print(try_(lambda: RaggedArray(np.arange(3), []).tolist()))
print(try_(lambda: RaggedArray(np.arange(0), [0,0]).tolist()))
for m in [np.zeros((0,0)), np.zeros((0,3)), np.zeros((3,0)), np.arange(6).reshape(2,3), np.arange(6,dtype=np.uint8).reshape(3,2)]:
    r = try_(lambda: RaggedArray.from_numpy_array(m))
    print(m.shape, r[0], try_(lambda: r[1].tolist()), try_(lambda: (r[1].to_numpy_array().shape, r[1].to_numpy_array().dtype)))
