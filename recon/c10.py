import numpy as np, collections, random, warnings, re, sys, copy
warnings.simplefilter('ignore')
from npstructures import RaggedArray
from rlib import rand_rows, rand_slice
random.seed(int(sys.argv[1]) if len(sys.argv)>1 else 61)
EXCLUDE_KNOWN = (len(sys.argv)<4)
def snap(x):
    if isinstance(x, RaggedArray):
        return ('RA', str(x.dtype), [list(map(repr, r)) for r in x.tolist()])
    if isinstance(x, tuple): return tuple(snap(e) for e in x)
    x=np.asarray(x); return ('ND', str(x.dtype), x.shape, [repr(v) for v in x.reshape(-1).tolist()])
def rand_rsel(n):
    k=random.randrange(5)
    if k==0: return rand_slice(n)
    if k==1: return [random.randint(-n,n-1) for _ in range(random.randint(0,4))] if n else []
    if k==2: return np.array([random.random()<.6 for _ in range(n)],dtype=bool)
    if k==3: return Ellipsis
    return rand_slice(n)
def rand_csel():
    return random.choice([None,None,'slice','slice'])
class World:
    def __init__(self, mode): self.mode=mode; self.vars=[]; self.obs=[]
    def add(self, x, alias=False):
        if self.mode=='F' and isinstance(x,RaggedArray) and not alias:
            x = RaggedArray([np.asarray(r) for r in x], dtype=x.dtype) if len(x) else RaggedArray(x.ravel().copy(), x.lengths.copy())
            # keep dtype & shape
        self.vars.append(x)
    def read(self, i, how):
        v=self.vars[i]
        if how=='repr': repr(v)
        elif how=='tolist': v.tolist()
        elif how=='ravel': v.ravel()
        elif how=='iter': list(v)
        elif how=='sum': 
            try: v.sum(axis=-1)
            except Exception: pass
        elif how=='str': str(v)
        elif how=='ufunc':
            try: v+1
            except Exception: pass
        elif how=='index': 
            try: v[::2]; v[0:1, 0:1]
            except Exception: pass
def gen_step(L):
    n=len(L.vars)
    i=random.randrange(n); v=L.vars[i]
    op=random.choice(['index','index','index','ufunc','ufunc2','colvec','cat','sort','cumsum','diff','where','assign','assign','rowread','reduce','unique','alias'])
    nr=len(v)
    if op=='index':
        rs=rand_rsel(nr); cs=None
        if random.random()<.5: cs=rand_slice(4)
        return ('index',i,rs,cs)
    if op=='alias': return ('alias',i,random.choice(['...','()']))
    if op=='ufunc': return ('ufunc',i,random.choice(['neg','add1','mul2','gt1']))
    if op=='ufunc2':
        # with another var of same lengths if any
        cands=[j for j,w in enumerate(L.vars) if isinstance(w,RaggedArray) and len(w)==nr and list(w.lengths)==list(v.lengths)]
        return ('ufunc2',i,random.choice(cands))
    if op=='colvec': return ('colvec',i,[random.randint(-3,3) for _ in range(nr)])
    if op=='cat': return ('cat',i,random.randrange(n))
    if op in('sort','cumsum','diff','unique'): return (op,i)
    if op=='where':
        return ('where',i)
    if op=='assign':
        rs=rand_rsel(nr)
        if isinstance(rs,list): rs=list(dict.fromkeys([x%nr for x in rs])) if nr else []
        cs=rand_slice(4) if random.random()<.4 else None
        return ('assign',i,rs,cs,random.choice(['scalar','col']))
    if op=='rowread': return ('rowread',i,random.randint(-nr,nr-1) if nr else 0)
    if op=='reduce': return ('reduce',i,random.choice(['sum','any','all']))
def apply(W, step):
    op=step[0]; v=W.vars[step[1]]
    try:
        if op=='index':
            _,i,rs,cs=step
            r = v[rs] if cs is None else v[rs,cs]
            W.add(r, alias=(rs is Ellipsis and cs is None)); return 'ok'
        if op=='alias':
            r = v[...] if step[2]=='...' else v[()]
            W.add(r, alias=True); return 'ok'
        if op=='ufunc':
            k=step[2]; r = -v if k=='neg' else v+1 if k=='add1' else v*2 if k=='mul2' else v>1
            W.add(r); return 'ok'
        if op=='ufunc2': W.add(v + W.vars[step[2]]); return 'ok'
        if op=='colvec': W.add(v + np.array(step[2],dtype=np.int64)[:,None]); return 'ok'
        if op=='cat': W.add(np.concatenate([v, W.vars[step[2]]])); return 'ok'
        if op=='sort': W.add(v.sort()); return 'ok'
        if op=='cumsum': W.add(np.cumsum(v,axis=-1)); return 'ok'
        if op=='diff': W.add(np.diff(v,axis=-1)); return 'ok'
        if op=='unique': W.add(np.unique(v,axis=-1)); return 'ok'
        if op=='where': W.add(np.where(v>1, v, -v)); return 'ok'
        if op=='assign':
            _,i,rs,cs,vk=step
            # compute selection size for col value
            if vk=='scalar': val=-9
            else:
                sel = v[rs] if not (rs is Ellipsis) else v
                val=np.arange(100,100+len(sel))[:,None]
            if cs is None: v[rs]=val
            else: v[rs,cs]=val
            return 'ok'
        if op=='rowread': W.obs.append(snap(v[step[2]])); return 'ok'
        if op=='reduce': W.obs.append(snap(getattr(v,step[2])(axis=-1))); return 'ok'
    except Exception as e:
        W.obs.append(('err', op, type(e).__name__))
        return 'err:'+type(e).__name__
buckets=collections.defaultdict(list)
NPROG=int(__import__("os").environ.get("RECON_N", 4000))
skipped=0; nsteps=0
for it in range(NPROG):
    rows=rand_rows()
    Ws={m:World(m) for m in 'LFB'}
    for W in Ws.values(): W.vars.append(RaggedArray(copy.deepcopy(rows),dtype=np.int64))
    family={0:0}  # var -> root
    prog=[]
    for s in range(random.randint(2,8)):
        L=Ws['L']
        step=gen_step(L)
        if step is None: continue
        if step[0]=='assign' and EXCLUDE_KNOWN:
            tgt=step[1]
            if any((not w.is_contigous) and j!=tgt for j,w in enumerate(L.vars) if isinstance(w,RaggedArray)):
                skipped+=1; continue
            # assignment with col-value needs selection read in apply (v[rs]) -> harmless
        # maybe insert read in world B
        if random.random()<.5:
            j=random.randrange(len(Ws['B'].vars))
            if isinstance(Ws['B'].vars[j],RaggedArray): Ws['B'].read(j, random.choice(['repr','tolist','ravel','iter','sum','str','ufunc','index']))
        res={m:apply(W,step) for m,W in Ws.items()}
        prog.append(step); nsteps+=1
        if len(set(res.values()))>1:
            buckets[('status-diff',step[0],str(res))].append((rows,prog[:])); break
        if res['L']!='ok' : 
            # error in all worlds: vars lists stay aligned (no var added)
            continue
    else:
        fin={m:[snap(x) for x in W.vars] for m,W in Ws.items()}
        obs={m:W.obs for m,W in Ws.items()}
        for other in 'FB':
            if fin['L']!=fin[other] or obs['L']!=obs[other]:
                # find first differing var
                d=[k for k,(x,y) in enumerate(zip(fin['L'],fin[other])) if x!=y]
                buckets[('final-diff','L vs '+other, 'var' if d else 'obs', prog[-1][0] if prog else '')].append((rows,prog[:],d))
print('programs',NPROG,'steps',nsteps,'skipped assigns',skipped)
for k,v in sorted(buckets.items(), key=lambda kv:-len(kv[1])):
    v.sort(key=lambda t: len(str(t)))
    print(len(v), k); 
    for t in v[:2]: print('      ', str(t)[:400])
