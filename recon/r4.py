import numpy as np, collections, random, warnings, os, copy
warnings.simplefilter('ignore')
from npstructures import RaggedArray, HashTable, HashSet
from rlib import model, rand_rows, rand_slice, rand_csel
from c14 import run
random.seed(97); rng=np.random.default_rng(97)
buckets=collections.defaultdict(list)
def coords(rows, rsel, csel):
    crow=[[(i,j) for j in range(len(r))] for i,r in enumerate(rows)]
    return model(crow,rsel,csel)
def rand_rsel_norepeat(n):
    k=random.randrange(5)
    if k==0: return random.randint(-n,n-1) if n else 0
    if k==1: return rand_slice(n)
    if k==2:
        idx=random.sample(range(n),random.randint(0,n)) if n else []
        return [i if random.random()<.5 else i-n for i in idx]
    if k==3: return [random.random()<.5 for _ in range(n)]
    return Ellipsis
N=int(os.environ.get('RECON_N',30000))
for it in range(N):
    rows=rand_rows()
    if not rows: continue
    rsel=rand_rsel_norepeat(len(rows)); csel=rand_csel()
    c=coords(rows,rsel,csel)
    if c[0]=='err' or c[0]=='cell': continue
    cells = c[1] if c[0]=='rows' else ([c[1]] if c[0]=='row' else [[x] for x in c[1]])
    flat=[x for r in cells for x in r]
    dt=random.choice([np.int64,np.int16,np.float64])
    ra=RaggedArray(copy.deepcopy(rows),dtype=dt); exp=[[dt(x) for x in r] for r in rows]
    vk=random.choice(['npscalar','floatscalar','list','lazyragged','matrix','ragged_other_dtype','bool'])
    if vk=='npscalar': value=np.int8(-3); vals=[-3]*len(flat)
    elif vk=='floatscalar': value=2.75; vals=[dt(2.75)]*len(flat)
    elif vk=='bool': value=True; vals=[1]*len(flat)
    elif vk=='list':
        if c[0]=='rows' and len(cells)!=1 and False: continue
        value=list(range(50,50+len(flat))); vals=value
    elif vk=='matrix':
        if c[0]!='rows' or not cells or len(set(len(r) for r in cells))!=1 or len(cells[0])==0: continue
        value=np.arange(50,50+len(flat)).reshape(len(cells),len(cells[0])); vals=list(value.reshape(-1))
    elif vk=='ragged_other_dtype':
        if c[0]!='rows': continue
        value=RaggedArray([[50+10*a+b for b,_ in enumerate(r)] for a,r in enumerate(cells)],dtype=np.int32); vals=[50+10*a+b for a,r in enumerate(cells) for b,_ in enumerate(r)]
    else:
        if c[0]!='rows': continue
        # lazy ragged value: build parent with extra rows, select
        vrows=[[50+10*a+b for b,_ in enumerate(r)] for a,r in enumerate(cells)]
        parent=RaggedArray(vrows[::-1]+[[999]],dtype=np.int64); value=parent[len(vrows)-1::-1] if vrows else parent[0:0]
        if len(vrows)==0: value=parent[0:0]
        else: value=parent[[len(vrows)-1-i for i in range(len(vrows))]]
        vals=[x for r in vrows for x in r]
    for v,(i,j) in zip(vals,flat): exp[i][j]=dt(v)
    rs=np.array(rsel) if isinstance(rsel,list) and rsel and isinstance(rsel[0],bool) else rsel
    _,err=run(lambda: ra.__setitem__(rs,value) if csel is None else ra.__setitem__((rs,csel),value))
    kind=(vk,c[0],dt.__name__)
    if err: buckets[kind+(err[:60],)].append((rows,rsel,csel)); continue
    got=ra.tolist()
    if got!=[[x.item() if hasattr(x,'item') else x for x in r] for r in exp] or ra.dtype!=dt: buckets[kind+('value',)].append((rows,rsel,csel,got,exp))
for k,v in sorted(buckets.items(), key=lambda kv:-len(kv[1])):
    v.sort(key=lambda t: len(str(t)))
    print(len(v),k,'  e.g.',str(v[0])[:300])
# hashtable extras
b2=collections.defaultdict(list)
for it in range(5000):
    n=random.randint(1,8); keys=random.sample(range(-50,50),n); vals=[random.randint(-9,9) for _ in keys]
    kd=random.choice([np.int64,np.int8,np.int32]); qd=random.choice([np.int64,np.int8,np.int16,np.uint8])
    t=HashTable(np.array(keys,dtype=kd),np.array(vals)); d=dict(zip(keys,vals))
    q=[random.choice(keys) for _ in range(4)]
    if qd==np.uint8 and min(q)<0: continue
    g,err=run(lambda: t[np.array(q,dtype=qd)])
    if err: b2[('querydtype',kd.__name__,qd.__name__,err[:50])].append((keys,q))
    elif list(g)!=[d[k] for k in q]: b2[('querydtype','value',kd.__name__,qd.__name__)].append((keys,q,list(g)))
    g,err=run(lambda: t[q])
    if err: b2[('listquery',err[:50])].append((keys,q))
    elif list(g)!=[d[k] for k in q]: b2[('listquery','value')].append((keys,q))
    z,err=run(lambda: np.zeros_like(t,dtype=float))
    if err: b2[('zeros_like dtype',err[:50])].append((keys,))
    else:
        g,err=run(lambda: z[np.array(keys,dtype=kd)])
        if err or list(g)!=[0.0]*n or np.asarray(g).dtype!=np.float64: b2[('zeros_like dtype','value',str(err)[:40], str(getattr(g,'dtype',None)))].append((keys,))
        _,err=run(lambda: z.__setitem__(keys[0],2.5)); g,err2=run(lambda: z[keys[0]])
        if err or err2 or float(np.asarray(g).reshape(-1)[0])!=2.5: b2[('zeros_like dtype set',str(err or err2)[:40])].append((keys,g))
for k,v in sorted(b2.items(), key=lambda kv:-len(kv[1])):
    print(len(v),k,'  e.g.',str(v[0])[:200])
