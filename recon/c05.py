import numpy as np, collections, random, warnings
warnings.simplefilter('ignore')
from npstructures import RaggedArray
exec(open('c04.py').read().split("buckets = collections")[0])
random.seed(7); rng=np.random.default_rng(7)
buckets = collections.defaultdict(list)
named = ['sum','prod','any','all','max','min','mean','argmax','argmin']
ufs = [np.add, np.multiply, np.logical_and, np.logical_or, np.logical_xor, np.bitwise_and, np.bitwise_or, np.bitwise_xor, np.maximum, np.minimum]
def eq(a,b):
    a=np.asarray(a); b=np.asarray(b)
    if a.dtype==object or b.dtype==object: return False
    return a.shape==b.shape and np.array_equal(a,b,equal_nan=True)
for it in range(int(__import__("os").environ.get("RECON_N", 40000))):
    lens = rand_lengths(); n=sum(lens)
    d1 = random.choice(dts)
    a = rand_data(n,d1); ra = RaggedArray(a.copy(), lens); rows = split(a,lens)
    mode = random.choice(['named_m','named_np','ufred','axisnone','keepdims'])
    hasempty = any(l==0 for l in lens)
    if mode in('named_m','named_np','keepdims'):
        name = random.choice(named)
        needs_nonempty = name in('max','min','mean','argmax','argmin')
        if needs_nonempty and hasempty: continue
        try: exp = np.array([getattr(np,name)(r) for r in rows]); experr=None
        except Exception as e: experr=type(e).__name__
        try:
            if mode=='named_m': got = getattr(ra,name)(axis=-1)
            elif mode=='named_np': got = getattr(np,name)(ra, axis=-1)
            else: got = getattr(ra,name)(axis=-1, keepdims=True); 
            goterr=None
        except Exception as e: goterr=type(e).__name__+':'+str(e)[:60]
        key=None
        if experr or goterr:
            if bool(experr)!=bool(goterr): key=(mode,name,'exp:'+str(experr),'got:'+str(goterr))
        else:
            if got is NotImplemented: key=(mode,name,'NotImplemented')
            else:
                g = np.asarray(got)
                if mode=='keepdims':
                    if g.shape!=(len(lens),1): key=(mode,name,'shape',g.shape)
                    g=g.reshape(-1)
                if key is None and not eq(g, exp): key=(mode,name,'values', d1.__name__, 'n0' if len(lens)==0 else '')
                elif key is None and len(lens) and g.dtype!=exp.dtype: key=(mode,name,'dtype',d1.__name__,str(g.dtype),str(exp.dtype))
        if key: buckets[key].append((lens,a,got if not goterr else None, None if experr else exp))
    elif mode=='ufred':
        uf = random.choice(ufs)
        if uf.identity is None and hasempty: continue
        try: exp = np.array([uf.reduce(r) for r in rows]); experr=None
        except Exception as e: experr=type(e).__name__
        try: got = uf.reduce(ra, axis=-1); goterr=None
        except Exception as e: goterr=type(e).__name__+':'+str(e)[:60]
        key=None
        if experr or goterr:
            if bool(experr)!=bool(goterr): key=(mode,uf.__name__,'exp:'+str(experr),'got:'+str(goterr), d1.__name__)
        else:
            g=np.asarray(got)
            if not eq(g,exp): key=(mode,uf.__name__,'values',d1.__name__, 'n0' if len(lens)==0 else '')
            elif len(lens) and g.dtype!=exp.dtype: key=(mode,uf.__name__,'dtype',d1.__name__,str(g.dtype),str(exp.dtype))
        if key: buckets[key].append((lens,a,got if not goterr else None, None if experr else exp))
    else:
        name = random.choice(['sum','prod','any','all','max','min','mean'])
        try: exp = getattr(np,name)(a); experr=None
        except Exception as e: experr=type(e).__name__
        try: got = getattr(np,name)(ra) if random.random()<.5 else getattr(ra,name)(); goterr=None
        except Exception as e: goterr=type(e).__name__+':'+str(e)[:60]
        key=None
        if experr or goterr:
            if bool(experr)!=bool(goterr): key=(mode,name,'exp:'+str(experr),'got:'+str(goterr))
        else:
            if not eq(got,exp): key=(mode,name,'values',d1.__name__)
        if key: buckets[key].append((lens,a,got if not goterr else None, None if experr else exp))
for k,v in sorted(buckets.items(), key=lambda kv:str(kv[0])):
    v.sort(key=lambda t: len(str(t)))
    print(len(v), k, '  e.g.', str(v[0])[:250].replace('\n',' '))
