import numpy as np, collections, random, warnings, re
warnings.simplefilter('ignore')
from npstructures import HashTable, Counter, HashSet
exec(open('c11.py').read().split('for it in range(int(')[0])
random.seed(29)
buckets = collections.defaultdict(list)
for it in range(int(__import__("os").environ.get("RECON_N", 30000))):
    dt=random.choice(kdts); keys=rand_keys(dt); n=len(keys); ii=np.iinfo(dt)
    mod=random.choice([None,None,1,2,3,7,n,2*n+1,101]); 
    if mod is not None and mod>ii.max: mod=None
    test=random.choice(['counter','counter','counter','hashset','add','eq','like'])
    tag=('mod='+('None' if mod is None else ('1' if mod==1 else 'k')),)
    if test=='counter':
        ik=random.choice(['default','scalar0','scalar5','arr'])
        init=[random.randint(0,9) for _ in keys]
        if ik=='default': c,err=run(lambda: Counter(np.array(keys,dtype=dt), mod=mod)); d={k:0 for k in keys}
        elif ik=='scalar0': c,err=run(lambda: Counter(np.array(keys,dtype=dt), 0, mod=mod)); d={k:0 for k in keys}
        elif ik=='scalar5': c,err=run(lambda: Counter(np.array(keys,dtype=dt), 5, mod=mod)); d={k:5 for k in keys}
        else: c,err=run(lambda: Counter(np.array(keys,dtype=dt), np.array(init), mod=mod)); d=dict(zip(keys,init))
        if err: buckets[('ctor',err,ik)+tag].append((keys,mod)); continue
        bad=None; hist=[]
        for b in range(random.randint(1,4)):
            bk=random.choice(['empty','nokey','onlykeys','mixed','rep'])
            cand=[x for x in range(max(ii.min,-40),min(ii.max,40)) if x not in d] + [x for x in [ii.max, ii.min, ii.max-1] if x not in d and abs(x)<2**63-1]
            if bk=='empty': s=[]
            elif bk=='nokey': s=[random.choice(cand) for _ in range(random.randint(1,5))]
            elif bk=='onlykeys': s=[random.choice(keys) for _ in range(random.randint(1,6))]
            elif bk=='rep': s=[random.choice(keys)]*random.randint(2,9)
            else: s=[random.choice(keys) if random.random()<.5 else random.choice(cand) for _ in range(random.randint(1,8))]
            hist.append((bk,s))
            _,err=run(lambda: c.count(np.array(s,dtype=dt)))
            for x in s:
                if x in d: d[x]+=1
            if err: bad=('count',err,ik,bk); break
            got,err=run(lambda: c[np.array(keys,dtype=dt)])
            if err: bad=('read',err,ik,bk); break
            if list(np.asarray(got))!=[d[k] for k in keys]: bad=('value',ik,bk); break
        if bad: buckets[bad+tag].append((keys,mod,hist))
    elif test=='hashset':
        hs,err=run(lambda: HashSet(np.array(keys,dtype=dt), mod=mod))
        if err: buckets[('hsctor',err)+tag].append((keys,mod)); continue
        q=[random.choice(keys) if random.random()<.5 else random.randint(max(ii.min,-30),min(ii.max,30)) for _ in range(random.randint(1,6))]
        got,err=run(lambda: hs.contains(np.array(q,dtype=dt)))
        if err: buckets[('hscontains',err)+tag].append((keys,mod,q))
        elif list(got)!=[k in keys for k in q]: buckets[('hscontains','value')+tag].append((keys,mod,q))
        k=random.choice(q)
        got,err=run(lambda: hs.contains(k))
        if err: buckets[('hscontains1',err)+tag].append((keys,mod,k))
        elif bool(got)!=(k in keys): buckets[('hscontains1','value')+tag].append((keys,mod,k))
    elif test in('add','eq'):
        v1=[random.randint(-9,9) for _ in keys]; v2=[random.randint(-9,9) for _ in keys] if random.random()<.6 else list(v1)
        perm=list(range(n)); 
        a=HashTable(np.array(keys,dtype=dt), np.array(v1), mod=mod); 
        same_order = random.random()<.5
        if not same_order: random.shuffle(perm)
        b=HashTable(np.array([keys[i] for i in perm],dtype=dt), np.array([v2[i] for i in perm]), mod=mod)
        if test=='add':
            got,err=run(lambda: a+b)
            if err: buckets[('add',err,'perm' if not same_order else '')+tag].append((keys,mod,perm))
            else:
                g,err=run(lambda: got[np.array(keys,dtype=dt)])
                if err: buckets[('add-read',err)+tag].append((keys,mod))
                elif list(g)!=[x+y for x,y in zip(v1,v2)]: buckets[('add','value','perm' if not same_order else '')+tag].append((keys,mod,perm,v1,v2,list(g)))
        else:
            got,err=run(lambda: a==b)
            if err: buckets[('eq',err)+tag].append((keys,mod))
            elif bool(got)!=(v1==v2): buckets[('eq','value','perm' if not same_order else '', 'exp=%s'%(v1==v2))+tag].append((keys,mod,perm,v1,v2))
    else:
        v1=[random.randint(-9,9) for _ in keys]
        a=HashTable(np.array(keys,dtype=dt), np.array(v1), mod=mod)
        f=random.choice([np.zeros_like,np.ones_like]); z,err=run(lambda: f(a))
        if err: buckets[('like',err)+tag].append((keys,mod)); continue
        g,err=run(lambda: z[np.array(keys,dtype=dt)])
        if err: buckets[('like-read',err)+tag].append((keys,mod))
        elif list(g)!=[0 if f is np.zeros_like else 1]*n: buckets[('like','value')+tag].append((keys,mod))
        _,err=run(lambda: z.__setitem__(keys[0], 42))
        g,err2=run(lambda: z[np.array(keys,dtype=dt)])
        if err or err2: buckets[('like-set',err or err2)+tag].append((keys,mod))
        elif list(g)!=[42]+[0 if f is np.zeros_like else 1]*(n-1): buckets[('like-set','value')+tag].append((keys,mod,list(g)))
        g,err=run(lambda: a[np.array(keys,dtype=dt)])
        if list(g)!=v1: buckets[('like-set','orig modified')+tag].append((keys,mod))
for k,v in sorted(buckets.items(), key=lambda kv:str(kv[0])):
    v.sort(key=lambda t: len(str(t)))
    print(len(v), k, '  e.g.', str(v[0])[:260].replace('\n',' '))
