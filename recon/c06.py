import numpy as np, collections, random, copy
from npstructures import RaggedArray
from rlib import model, rand_rows, rand_slice, rand_csel, rand_rsel, real
random.seed(11)
# chains of index ops yielding 'rows'
buckets = collections.defaultdict(list)
def isbad(rows, rsel, csel):
    # known classes A and B
    if isinstance(csel, int) and csel < 0: return True
    if isinstance(csel, slice) and (csel.step or 1) < 0:
        mm = model(rows, rsel)
        if mm[0]=='err': return False
        sel = mm[1] if mm[0]=='rows' else [mm[1]]
        if any(len(x)==0 for x in sel): return True
    return False
N=0
for it in range(int(__import__("os").environ.get("RECON_N", 60000))):
    rows = rand_rows()
    ra = RaggedArray(rows, dtype=np.int64)
    cur_rows = rows; cur = ra; chain=[]
    depth = random.randint(2,4); ok=True
    for d in range(depth):
        rsel = rand_rsel(len(cur_rows)); csel = rand_csel()
        pass
        m = model(cur_rows, rsel, csel)
        chain.append((rsel,csel))
        fresh = RaggedArray(cur_rows, dtype=np.int64)
        rf = real(fresh, rsel, csel)
        rv = real(cur, rsel, csel)
        # compare view result with fresh result (C06) and with model
        if rf != rv and not (rf[0]=='err' and rv[0]=='err'):
            lazy = not cur.is_contigous
            key=('view!=fresh', type(cur._shape).__name__, type(rsel).__name__, type(csel).__name__, rf[0], rv[0] if rv[0]!='err' else rv[1])
            buckets[key].append((rows, chain[:], rf, rv)); ok=False; break
        if m[0]!='rows' or rv[0]!='rows': break
        rs = np.array(rsel) if isinstance(rsel, list) and rsel and isinstance(rsel[0], bool) else rsel
        cur = cur[rs] if csel is None else cur[rs, csel]
        cur_rows = m[1]
        N+=1
print(N)
for k,v in sorted(buckets.items(), key=lambda kv:-len(kv[1])):
    v.sort(key=lambda t: len(str(t)))
    print(len(v), k)
    for t in v[:3]: print('    ', t)
