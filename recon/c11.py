import numpy as np, collections, random, warnings, re
warnings.simplefilter('ignore')
from npstructures import HashTable, Counter, HashSet
random.seed(23); rng=np.random.default_rng(23)
buckets = collections.defaultdict(list)
def run(f):
    try: return f(), None
    except Exception as e: return None, type(e).__name__+':'+re.sub(r'\d+','N',str(e)[:70])
kdts=[np.int64,np.int32,np.int16,np.int8,np.uint8,np.uint16,np.uint32,np.uint64]
def rand_keys(dt):
    ii=np.iinfo(dt); n=random.randint(1,8)
    pool = set()
    while len(pool)<n:
        c=random.random()
        if c<.5: v=random.randint(max(ii.min,-20), min(ii.max,20))
        elif c<.8: v=random.randint(max(ii.min,-2**62), min(ii.max,2**62))
        else: v=random.choice([ii.min if ii.min>-2**62 else -2**62, min(ii.max,2**62), 0, -1 if ii.min<0 else 1])
        pool.add(v)
    ks=list(pool); random.shuffle(ks); return ks
for it in range(int(__import__("os").environ.get("RECON_N", 30000))):
    dt=random.choice(kdts); keys=rand_keys(dt); n=len(keys)
    mod=random.choice([None,None,1,2,3,7,n,2*n+1,1000003])
    vals=[random.randint(-50,50) for _ in keys]
    vk=random.choice(['arr','scalar','float'])
    tag=(dt.__name__ if np.dtype(dt).kind=='u' or dt in(np.int8,np.int16) else 'i', 'mod='+('None' if mod is None else ('1' if mod==1 else 'k')), 'neg' if min(keys)<0 else 'pos')
    if vk=='arr': v=np.array(vals); d=dict(zip(keys,vals))
    elif vk=='float': v=np.array(vals,dtype=float)/2; d=dict(zip(keys,(v).tolist()))
    else: v=vals[0]; d={k:v for k in keys}
    ht,err=run(lambda: HashTable(np.array(keys,dtype=dt), v, mod=mod))
    if err: buckets[('ctor',err)+tag].append((keys,mod)); continue
    ops=[]
    bad=None
    for step in range(random.randint(1,6)):
        op=random.choice(['get1','getv','set1','setv','setvs','fill','contains','getmiss','todict'])
        if op=='get1':
            k=random.choice(keys); got,err=run(lambda: ht[k] if random.random()<.5 else ht[dt(k)])
            if err: bad=(op,err)
            elif np.asarray(got).shape!=() and np.asarray(got).shape!=(1,): bad=(op,'shape',str(np.asarray(got).shape))
            elif np.asarray(got).reshape(-1)[0]!=d[k]: bad=(op,'value')
        elif op=='getv':
            q=[random.choice(keys) for _ in range(random.randint(0,6))]
            got,err=run(lambda: ht[np.array(q,dtype=dt)])
            if err: bad=(op,err,'empty' if not q else '')
            elif list(np.asarray(got))!=[d[k] for k in q]: bad=(op,'value')
        elif op=='set1':
            k=random.choice(keys); nv=random.randint(100,200)
            _,err=run(lambda: ht.__setitem__(k,nv)); d[k]=nv
            if err: bad=(op,err)
        elif op=='setv':
            q=random.sample(keys, random.randint(1,n)); nv=random.randint(100,200)
            _,err=run(lambda: ht.__setitem__(np.array(q,dtype=dt),nv))
            for k in q: d[k]=nv
            if err: bad=(op,err)
        elif op=='setvs':
            q=random.sample(keys, random.randint(1,n)); nv=[random.randint(100,200) for _ in q]
            _,err=run(lambda: ht.__setitem__(np.array(q,dtype=dt),np.array(nv)))
            for k,x in zip(q,nv): d[k]=x
            if err: bad=(op,err)
        elif op=='fill':
            nv=random.randint(300,400); _,err=run(lambda: ht.fill(nv)); d={k:nv for k in d}
            if err: bad=(op,err)
        elif op=='contains':
            ii=np.iinfo(dt)
            q=[random.choice(keys) if random.random()<.5 else random.randint(max(ii.min,-30),min(ii.max,30)) for _ in range(random.randint(1,6))]
            got,err=run(lambda: ht.contains(np.array(q,dtype=dt)))
            if err: bad=(op,err)
            elif list(got)!=[k in d for k in q]: bad=(op,'value')
        elif op=='getmiss':
            ii=np.iinfo(dt)
            cand=[x for x in range(max(ii.min,-40),min(ii.max,40)) if x not in d]
            q=[random.choice(keys) for _ in range(random.randint(0,3))]+[random.choice(cand)]; random.shuffle(q)
            got,err=run(lambda: ht[np.array(q,dtype=dt)])
            if not err: bad=(op,'accepted', 'scalarvals' if not hasattr(ht._values,'ravel') else 'arrvals')
        elif op=='todict':
            got,err=run(lambda: ht.to_dict())
            if err: bad=(op,err, 'scalarvals' if not hasattr(ht._values,'ravel') else 'arrvals')
            elif {int(k):v for k,v in got.items()}!=d: bad=(op,'value')
        ops.append(op)
        if bad: break
    if bad: buckets[bad+tag+(vk,)].append((keys,mod,ops))
for k,v in sorted(buckets.items(), key=lambda kv:str(kv[0])):
    v.sort(key=lambda t: len(str(t)))
    print(len(v), k, '  e.g.', str(v[0])[:200].replace('\n',' '))
