import ast, copy, os, sys, shutil, subprocess, json, hashlib
from multiprocessing import Pool
BASE='/tmp/recon/fixed'
SWAP_BIN={ast.Add:ast.Sub, ast.Sub:ast.Add, ast.Mult:ast.FloorDiv, ast.FloorDiv:ast.Mult, ast.BitAnd:ast.BitOr, ast.BitOr:ast.BitAnd, ast.BitXor:ast.BitAnd, ast.Mod:ast.FloorDiv, ast.LShift:ast.RShift, ast.RShift:ast.LShift, ast.Div:ast.Mult}
SWAP_CMP={ast.Lt:[ast.LtE,ast.Gt], ast.LtE:[ast.Lt,ast.GtE], ast.Gt:[ast.GtE,ast.Lt], ast.GtE:[ast.Gt,ast.LtE], ast.Eq:[ast.NotEq], ast.NotEq:[ast.Eq], ast.Is:[ast.IsNot], ast.IsNot:[ast.Is]}
NAME_SWAP={'minimum':'maximum','maximum':'minimum','starts':'ends','ends':'starts','cumsum':'cumprod','left':'right','right':'left','any':'all','all':'any','zeros':'ones','ones':'zeros','zeros_like':'ones_like','ones_like':'zeros_like','argsort':'sort'}
def sites(fn):
    out=[]
    for node in ast.walk(fn):
        if isinstance(node, ast.BinOp) and type(node.op) in SWAP_BIN: out.append(('bin',node,None))
        if isinstance(node, ast.AugAssign) and type(node.op) in SWAP_BIN: out.append(('aug',node,None))
        if isinstance(node, ast.Compare):
            for k,op in enumerate(node.ops):
                for alt in SWAP_CMP.get(type(op),[]): out.append(('cmp',node,(k,alt)))
        if isinstance(node, ast.BoolOp): out.append(('bool',node,None))
        if isinstance(node, ast.UnaryOp) and isinstance(node.op,(ast.Not,ast.USub,ast.Invert)): out.append(('unary',node,None))
        if isinstance(node, ast.Constant):
            if isinstance(node.value,bool): out.append(('const',node,not node.value))
            elif isinstance(node.value,int) and abs(node.value)<=64:
                out.append(('const',node,node.value+1)); out.append(('const',node,node.value-1))
            elif isinstance(node.value,str) and node.value in NAME_SWAP: out.append(('const',node,NAME_SWAP[node.value]))
        if isinstance(node, ast.Attribute) and node.attr in NAME_SWAP: out.append(('attr',node,NAME_SWAP[node.attr]))
        if isinstance(node,(ast.Assign,ast.AugAssign,ast.Expr)) and not (isinstance(node,ast.Expr) and isinstance(node.value,ast.Constant)): out.append(('del',node,None))
        if isinstance(node, ast.Slice):
            for f in ('lower','upper','step'):
                if getattr(node,f) is not None: out.append(('slicedrop',node,f))
        if isinstance(node, ast.If): out.append(('ifneg',node,None))
    return out
def find_fn(tree, qual):
    parts=qual.split('.')
    body=tree.body; node=None
    for p in parts:
        node=None
        for n in body:
            if isinstance(n,(ast.FunctionDef,ast.ClassDef)) and n.name==p: node=n
        # last definition wins (python semantics)
        if node is None: raise KeyError(qual)
        body=node.body
    return node
def make_mutants(path, qual):
    src=open(path).read(); tree=ast.parse(src)
    fn=find_fn(tree,qual); n=len(sites(fn)); res=[]
    for i in range(n):
        t=ast.parse(src); f=find_fn(t,qual); kind,node,arg=sites(f)[i]
        desc=f"{kind}@L{getattr(node,'lineno','?')}"
        if kind=='bin' or kind=='aug': node.op=SWAP_BIN[type(node.op)](); desc+=':'+type(node.op).__name__
        elif kind=='cmp': node.ops[arg[0]]=arg[1](); desc+=':'+arg[1].__name__
        elif kind=='bool': node.op=ast.Or() if isinstance(node.op,ast.And) else ast.And()
        elif kind=='unary':
            # replace by operand: need parent; emulate by turning op into UAdd for USub/Invert, and Not->double not
            if isinstance(node.op,ast.Not): node.operand=ast.UnaryOp(op=ast.Not(),operand=node.operand)
            else: node.op=ast.UAdd()
        elif kind=='const': node.value=arg; desc+=':'+repr(arg)
        elif kind=='attr': node.attr=arg; desc+=':'+arg
        elif kind=='del':
            new=ast.Pass(); 
            for parent in ast.walk(f):
                for field,val in ast.iter_fields(parent):
                    if isinstance(val,list) and node in val: val[val.index(node)]=new
        elif kind=='slicedrop': setattr(node,arg,None); desc+=':'+arg
        elif kind=='ifneg': node.test=ast.UnaryOp(op=ast.Not(),operand=node.test)
        ast.fix_missing_locations(t)
        try: code=ast.unparse(t)
        except Exception: continue
        res.append((desc,code))
    return res
def run_one(job):
    relpath, qual, idx, desc, code, killers, N = job
    mid=hashlib.md5((relpath+qual+str(idx)).encode()).hexdigest()[:10]
    d=f'/tmp/recon/m/{mid}'
    shutil.rmtree(d,ignore_errors=True); os.makedirs(d)
    try:
        shutil.copytree(BASE+'/npstructures', d+'/npstructures', ignore=shutil.ignore_patterns('__pycache__'))
        shutil.copytree(BASE+'/tests', d+'/tests', ignore=shutil.ignore_patterns('__pycache__'))
        shutil.copy(BASE+'/conftest.py', d); shutil.copy(BASE+'/setup.cfg', d)
        open(d+'/npstructures/'+relpath,'w').write(code)
        env=dict(os.environ, PYTHONDONTWRITEBYTECODE='1')
        try:
            r=subprocess.run(['/venv/bin/python','-m','pytest','-q','-x','-p','no:cacheprovider','--timeout=120'],cwd=d,env=env,capture_output=True,text=True,timeout=300)
            suite_ok = r.returncode==0
        except subprocess.TimeoutExpired: suite_ok=False
        if not suite_ok: return (relpath,qual,idx,desc,'suite-killed',None)
        env2=dict(env, PYTHONPATH=d, RECON_N=str(N))
        for k in killers:
            try:
                r=subprocess.run(['/venv/bin/python',k+'.py'],cwd='/tmp/recon',env=env2,capture_output=True,text=True,timeout=600)
                out=r.stdout+r.stderr
            except subprocess.TimeoutExpired: out='TIMEOUT'
            base=open(f'/tmp/recon/base_{k}.txt').read()
            if out!=base: return (relpath,qual,idx,desc,'killed',k)
        return (relpath,qual,idx,desc,'SURVIVED',None)
    finally:
        shutil.rmtree(d,ignore_errors=True)
if __name__=='__main__':
    spec=json.load(open(sys.argv[1])); N=int(sys.argv[2]) if len(sys.argv)>2 else 4000
    jobs=[]
    for relpath, quals, killers in spec:
        for q in quals:
            try: ms=make_mutants(BASE+'/npstructures/'+relpath,q)
            except KeyError: print('missing',q); continue
            for i,(desc,code) in enumerate(ms): jobs.append((relpath,q,i,desc,code,killers,N))
    print('mutants',len(jobs),file=sys.stderr)
    with Pool(16) as p: res=p.map(run_one,jobs,chunksize=1)
    import collections
    agg=collections.defaultdict(lambda: collections.Counter())
    for r in res: agg[(r[0],r[1])][r[4]]+=1
    for k,v in agg.items(): print(k, dict(v))
    for r in res:
        if r[4]=='SURVIVED': print('SURVIVED', r[:4])
    json.dump(res, open(sys.argv[1]+'.out.json','w'))
