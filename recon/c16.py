import numpy as np, collections, random, warnings, re
warnings.simplefilter('ignore')
from npstructures import RunLengthArray, RunLengthRaggedArray, RaggedArray
from c14 import *
random.seed(43); rng=np.random.default_rng(43)
buckets = collections.defaultdict(list)
binary = [np.add, np.subtract, np.multiply, np.true_divide, np.floor_divide, np.maximum, np.minimum, np.power,
          np.equal, np.not_equal, np.less, np.less_equal, np.greater, np.greater_equal,
          np.bitwise_and, np.bitwise_or, np.bitwise_xor, np.logical_and, np.logical_or, np.logical_xor, np.remainder]
unary = [np.negative, np.abs, np.invert, np.logical_not, np.sqrt, np.sign, np.square, np.isnan, np.floor]
D=[np.bool_,np.int8,np.int32,np.int64,np.uint8,np.float32,np.float64]
for it in range(int(__import__("os").environ.get("RECON_N", 50000))):
    n=random.choice([1,2,3,5,8,13])
    a=rand_arr(n,random.choice(D)); b=rand_arr(n,random.choice(D))
    ra=RunLengthArray.from_array(a); rb=RunLengthArray.from_array(b)
    op=random.choice(['bin','bin','scalarR','scalarL','npscalar','unary','red','hist','cat'])
    dk=(a.dtype.kind,b.dtype.kind)
    if op=='bin':
        uf=random.choice(binary)
        exp,eerr=run(lambda: uf(a,b)); g,err=run(lambda: uf(ra,rb))
        if eerr or err:
            if bool(eerr)!=bool(err): buckets[(op,'exp:'+str(eerr)[:20],'got:'+str(err)[:40])+dk].append((a,b,uf.__name__))
        else:
            gg,err=run(lambda: g.to_array())
            if err: buckets[(op,'to_array:'+err)].append((a,b,uf.__name__))
            elif not aeq(gg,exp): buckets[(op,'value',uf.__name__)+dk].append((a,b,gg,exp))
            elif gg.dtype!=exp.dtype: buckets[(op,'dtype')+dk].append((a,b,uf.__name__,gg.dtype,exp.dtype))
            else:
                c=canon(g, True)
                if c: buckets[(op,'canon',c,uf.__name__)+dk].append((a,b,g._events,g._values))
            if not aeq(ra.to_array(),a) or not aeq(rb.to_array(),b): buckets[(op,'operand modified')].append((a,b))
    elif op in('scalarR','scalarL','npscalar'):
        uf=random.choice(binary)
        s=random.choice([2,-1,0,1.5,True]) if op!='npscalar' else rand_arr(1,random.choice(D))[0]
        left = op=='scalarL' or (op=='npscalar' and random.random()<.5)
        exp,eerr=run(lambda: uf(s,a) if left else uf(a,s)); g,err=run(lambda: uf(s,ra) if left else uf(ra,s))
        sk=type(s).__name__
        if eerr or err:
            if bool(eerr)!=bool(err): buckets[(op,'L' if left else 'R','exp:'+str(eerr)[:20],'got:'+str(err)[:50], sk)].append((a,s,uf.__name__))
        else:
            gg,err=run(lambda: g.to_array())
            if err: buckets[(op,'to_array:'+err)].append((a,s,uf.__name__))
            elif not aeq(gg,exp): buckets[(op,'L' if left else 'R','value',uf.__name__,a.dtype.kind,sk)].append((a,s,gg,exp))
            elif gg.dtype!=exp.dtype: buckets[(op,'dtype',a.dtype.kind,sk)].append((a,s,uf.__name__,gg.dtype,exp.dtype))
    elif op=='unary':
        uf=random.choice(unary)
        exp,eerr=run(lambda: uf(a)); g,err=run(lambda: uf(ra))
        if eerr or err:
            if bool(eerr)!=bool(err): buckets[(op,'exp:'+str(eerr)[:20],'got:'+str(err)[:40])].append((a,uf.__name__))
        else:
            gg,err=run(lambda: g.to_array())
            if err: buckets[(op,'to_array:'+err)].append((a,uf.__name__))
            elif not aeq(gg,exp) or gg.dtype!=exp.dtype: buckets[(op,'value',uf.__name__,a.dtype.kind)].append((a,gg,exp))
    elif op=='red':
        name=random.choice(['sum','any','all','max','mean'])
        via=random.choice(['np','m']) if name!='max' else 'm'
        exp,eerr=run(lambda: getattr(np,name)(a)); g,err=run(lambda: getattr(np,name)(ra) if via=='np' else getattr(ra,name)())
        if eerr or err:
            if bool(eerr)!=bool(err): buckets[(op,name,via,'exp:'+str(eerr)[:20],'got:'+str(err)[:40],a.dtype.kind)].append((a,))
        elif not (np.allclose(g,exp,equal_nan=True,rtol=1e-6) if a.dtype.kind=='f' or name=='mean' else g==exp): buckets[(op,name,via,'value',a.dtype.name)].append((a,g,exp))
    elif op=='hist':
        if a.dtype.kind=='b' or (a.dtype.kind=='f' and not np.all(np.isfinite(a))): continue
        if a.dtype.kind in 'iu': a=np.clip(a,-100,100); ra=RunLengthArray.from_array(a)
        bins=random.choice([3,10,[-5,0,1,2,200]])
        exp,eerr=run(lambda: np.histogram(a,bins=bins)); g,err=run(lambda: np.histogram(ra,bins=bins))
        if eerr or err:
            if bool(eerr)!=bool(err): buckets[(op,'exp:'+str(eerr)[:20],'got:'+str(err)[:40])].append((a,bins))
        elif not (np.array_equal(g[0],exp[0]) and np.allclose(g[1],exp[1])): buckets[(op,'value')].append((a,bins,g,exp))
    else:
        k=random.randint(1,3); parts=[rand_arr(None,a.dtype.type) for _ in range(k)]
        exp=np.concatenate(parts); g,err=run(lambda: np.concatenate([RunLengthArray.from_array(p) for p in parts]))
        if err: buckets[(op,err)].append(parts)
        else:
            gg,err=run(lambda: g.to_array())
            if err: buckets[(op,'to_array:'+err)].append(parts)
            elif not aeq(gg,exp) or gg.dtype!=exp.dtype: buckets[(op,'value')].append((parts,gg))
            elif canon(g,False): buckets[(op,'canon',canon(g,False))].append(parts)
for k,v in sorted(buckets.items(), key=lambda kv:str(kv[0])):
    v.sort(key=lambda t: len(str(t)))
    print(len(v), k, '  e.g.', str(v[0])[:300].replace('\n',' '))
