import numpy as np, collections, random, warnings, re
warnings.simplefilter('ignore')
from npstructures import RaggedArray, ragged_slice
from npstructures.mixin import NPSArray
exec(open('c04.py').read().split("buckets = collections")[0])
random.seed(17); rng=np.random.default_rng(17)
buckets = collections.defaultdict(list)
def mk(d1=None, lens=None):
    lens = rand_lengths() if lens is None else lens
    d1 = d1 or random.choice(dts)
    a = rand_data(sum(lens), d1)
    return lens, a, RaggedArray(a.copy(), lens), split(a,lens)
def rows_eq(got, exp):
    if not isinstance(got, RaggedArray): return 'notragged:'+type(got).__name__
    g = list(got)
    if len(g)!=len(exp): return 'nrows %d!=%d'%(len(g),len(exp))
    for x,y in zip(g,exp):
        if x.shape!=np.asarray(y).shape: return 'rowlen'
        if not np.array_equal(x,y,equal_nan=True): return 'values'
    return None
def run(f):
    try: return f(), None
    except Exception as e: return None, type(e).__name__+':'+re.sub(r'\d+','N',str(e)[:60])
for it in range(int(__import__("os").environ.get("RECON_N", 60000))):
    op = random.choice(['cat0','cat1','like','pad','nonzero','where','subset','maskidx','rslice_ra','rslice_1d','rslice_2d','maskset'])
    key=None; info=None
    if op=='cat0':
        k = random.randint(1,3); d=random.choice(dts); parts=[mk(d) for _ in range(k)]
        exp=[r for p in parts for r in p[3]]
        got,err = run(lambda: np.concatenate([p[2] for p in parts]))
        if err: key=(op,err, 'any n0' if any(len(p[0])==0 for p in parts) else '')
        else:
            r=rows_eq(got,exp); 
            if r: key=(op,r)
            elif got.dtype!=d and sum(len(p[0]) for p in parts): key=(op,'dtype')
        info=[p[0] for p in parts]
    elif op=='cat1':
        k = random.randint(1,3); d=random.choice(dts); n=random.randint(0,4); parts=[mk(d,[random.choice([0,0,1,2]) for _ in range(n)]) for _ in range(k)]
        exp=[np.concatenate(rs) for rs in zip(*[p[3] for p in parts])]
        got,err = run(lambda: np.concatenate([p[2] for p in parts], axis=-1))
        if err: key=(op,err,'n0' if n==0 else '')
        else:
            r=rows_eq(got,exp)
            if r: key=(op,r)
            elif n and got.dtype!=d : key=(op,'dtype', 'size0' if got.size==0 else '')
        info=[p[0] for p in parts]
    elif op=='like':
        lens,a,ra,rows = mk(); f=random.choice([np.zeros_like,np.ones_like,np.empty_like]); dt=random.choice([None,None,np.float32,bool])
        got,err = run(lambda: f(ra) if dt is None else f(ra,dtype=dt))
        if err: key=(op,err)
        else:
            if not isinstance(got,RaggedArray) or got.lengths.tolist()!=lens: key=(op,'lens')
            elif got.dtype!=(dt or a.dtype): key=(op,'dtype')
            elif f is np.zeros_like and np.any(got.ravel()!=0): key=(op,'vals')
            elif f is np.ones_like and np.any(got.ravel()!=1): key=(op,'vals')
        info=lens
    elif op=='pad':
        lens,a,ra,rows = mk(random.choice([np.int64,np.uint8,np.float64,bool]))
        side=random.choice(['left','right']); fill=random.choice([0,7])
        if sum(lens)==0: continue
        L=max(lens); exp=np.full((len(lens),L), fill, dtype=a.dtype)
        for i,r in enumerate(rows):
            if side=='right': exp[i,:len(r)]=r
            else: exp[i,L-len(r):]=r
        got,err = run(lambda: ra.as_padded_matrix(fill_value=fill, side=side))
        if err: key=(op,err)
        elif got.shape!=exp.shape or not np.array_equal(got,exp,equal_nan=True): key=(op,'values',side)
        info=(lens,a,side,fill,got)
    elif op=='nonzero':
        lens,a,ra,rows = mk()
        er=[];ec=[]
        for i,r in enumerate(rows):
            for j,v in enumerate(r):
                if v!=0: er.append(i);ec.append(j)
        m=random.choice(['np','m'])
        got,err=run(lambda: np.nonzero(ra) if m=='np' else ra.nonzero())
        if err: key=(op,err)
        elif list(got[0])!=er or list(got[1])!=ec: key=(op,'values')
        info=(lens,a)
    elif op=='where':
        lens,a,ra,rows = mk(); d2=random.choice(dts)
        mask = rand_data(sum(lens), np.bool_); mra = RaggedArray(mask.copy(), lens)
        xk=random.choice(['ra','scalar']); yk=random.choice(['ra','scalar'])
        b = rand_data(sum(lens), d2)
        x = ra if xk=='ra' else 3; y = RaggedArray(b.copy(), lens) if yk=='ra' else 5
        exp = np.where(mask, a if xk=='ra' else 3, b if yk=='ra' else 5)
        got,err=run(lambda: np.where(mra, x, y))
        if err: key=(op,err,xk,yk)
        else:
            if not isinstance(got,RaggedArray) or got.lengths.tolist()!=lens: key=(op,'lens',xk,yk)
            elif not np.array_equal(got.ravel(),exp,equal_nan=True): key=(op,'values',xk,yk)
        info=(lens,)
    elif op in('subset','maskidx'):
        lens,a,ra,rows = mk()
        mask = rand_data(sum(lens), np.bool_); mra = RaggedArray(mask.copy(), lens); mrows=split(mask,lens)
        if op=='subset':
            exp=[r[m] for r,m in zip(rows,mrows)]
            got,err=run(lambda: ra.subset(mra))
            if err: key=(op,err, 'n0' if not lens else '')
            else:
                r=rows_eq(got,exp)
                if r: key=(op,r)
        else:
            exp=a[mask]
            got,err=run(lambda: ra[mra])
            if err: key=(op,err)
            elif not np.array_equal(np.asarray(got),exp,equal_nan=True): key=(op,'values')
        info=(lens,mask)
    elif op=='maskset':
        lens,a,ra,rows = mk(np.int64)
        mask = rand_data(sum(lens), np.bool_); mra = RaggedArray(mask.copy(), lens)
        exp=a.copy(); exp[mask]=-7
        got,err=run(lambda: ra.__setitem__(mra,-7))
        if err: key=(op,err)
        elif not np.array_equal(ra.ravel(),exp) or ra.lengths.tolist()!=lens: key=(op,'values')
        info=(lens,mask)
    elif op=='rslice_ra':
        lens,a,ra,rows = mk(np.int64)
        st=[random.randint(0,l) for l in lens]; en=[random.choice([random.randint(s,l), random.randint(s,l)-l if random.randint(s,l)-l<0 else l]) for s,l in zip(st,lens)]
        usest=random.random()<.8; useen=random.random()<.8
        exp=[r[(s if usest else None):(e if useen else None)] for r,s,e in zip(rows,st,en)]
        got,err=run(lambda: ragged_slice(ra, np.array(st,dtype=int) if usest else None, np.array(en,dtype=int) if useen else None))
        if err: key=(op,err,'n0' if not lens else '')
        else:
            r=rows_eq(got,exp)
            if r: key=(op,r, 'negend' if any(e<0 for e in en) else '')
        info=(lens,st,en,usest,useen)
    elif op=='rslice_1d':
        n=random.randint(1,8); a=np.arange(n)*10; k=random.randint(0,4)
        st=[random.randint(0,n) for _ in range(k)]; en=[random.choice([random.randint(s,n), random.randint(s,n)-n if random.randint(s,n)-n<0 else n]) for s in st]
        exp=[a[s:e] for s,e in zip(st,en)]
        via=random.choice(['fn','nps'])
        if via=='fn': got,err=run(lambda: ragged_slice(a, np.array(st,dtype=int), np.array(en,dtype=int)))
        else: got,err=run(lambda: a.view(NPSArray)[np.array(st,dtype=int):np.array(en,dtype=int)])
        if err: key=(op,err,via,'k0' if k==0 else '')
        else:
            r=rows_eq(got,exp)
            if r: key=(op,r,via)
        info=(n,st,en)
    elif op=='rslice_2d':
        n=random.randint(0,4); w=random.randint(1,5); a=(np.arange(n*w)*10).reshape(n,w)
        st=[random.randint(0,w) for _ in range(n)]; en=[random.choice([random.randint(s,w), random.randint(s,w)-w if random.randint(s,w)-w<0 else w]) for s in st]
        exp=[a[i,s:e] for i,(s,e) in enumerate(zip(st,en))]
        got,err=run(lambda: ragged_slice(a, np.array(st,dtype=int), np.array(en,dtype=int)))
        if err: key=(op,err,'n0' if n==0 else '')
        else:
            r=rows_eq(got,exp)
            if r: key=(op,r)
        info=(a.shape,st,en)
    if key: buckets[key].append(info)
for k,v in sorted(buckets.items(), key=lambda kv:str(kv[0])):
    v.sort(key=lambda t: len(str(t)))
    print(len(v), k, '  e.g.', str(v[0])[:300].replace('\n',' '))
