import numpy as np, itertools, collections, random, copy
from npstructures import RaggedArray
from rlib import model, rand_rows, rand_slice, rand_csel
random.seed(2)
# model of assignment: compute addressed cells via coordinates
def coords(rows, rsel, csel):
    crow = [[(i,j) for j in range(len(r))] for i,r in enumerate(rows)]
    return model(crow, rsel, csel)
def rand_rsel_norepeat(n):
    k = random.randrange(6)
    if k==0: return random.randint(-n, n-1) if n else 0
    if k==1 or k==2: return rand_slice(n)
    if k==3:
        idx = random.sample(range(n), random.randint(0,n)) if n else []
        return [i if random.random()<.5 else i-n for i in idx]
    if k==4: return [random.random()<0.5 for _ in range(n)]
    return Ellipsis
buckets = collections.defaultdict(list)
for it in range(int(__import__("os").environ.get("RECON_N", 40000))):
    rows = rand_rows()
    if not rows: continue
    rsel = rand_rsel_norepeat(len(rows)); csel = rand_csel()
    c = coords(rows, rsel, csel)
    vk = random.choice(['scalar','flat','col','ragged','ragged_bad'])
    ra = RaggedArray(copy.deepcopy(rows), dtype=np.int64)
    exp = copy.deepcopy(rows)
    experr = False
    if c[0]=='err': experr=True; value=-7; vk='scalar'
    else:
        if c[0]=='rows': cells = c[1]
        elif c[0] in ('row',): cells=[c[1]]
        elif c[0]=='cells': cells=[[x] for x in c[1]]
        else: cells=[[c[1]]]
        flatcells=[x for r in cells for x in r]
        if c[0]!='rows' and vk in('col','ragged','ragged_bad'): vk='flat'
        if c[0]=='cell' : vk='scalar'
        if vk=='scalar':
            value=-7
            for (i,j) in flatcells: exp[i][j]=-7
        elif vk=='flat':
            value = np.arange(100,100+len(flatcells))
            for v,(i,j) in zip(value, flatcells): exp[i][j]=int(v)
        elif vk=='col':
            value = np.arange(100,100+len(cells))[:,None]
            if len(cells)==1: vk='col1'
            for v, r in zip(value[:,0], cells):
                for (i,j) in r: exp[i][j]=int(v)
        elif vk=='ragged':
            vals=[[100+10*a+b for b,_ in enumerate(r)] for a,r in enumerate(cells)]
            value = RaggedArray(vals, dtype=np.int64)
            for vr, r in zip(vals, cells):
                for v,(i,j) in zip(vr,r): exp[i][j]=v
        else:
            vals=[[100+10*a+b for b,_ in enumerate(r)] for a,r in enumerate(cells)]
            vals = vals+[[1]] if random.random()<.5 else [v+[5] for v in vals]
            if not vals: vals=[[1]]
            value = RaggedArray(vals, dtype=np.int64); experr=True
    try:
        rs = np.array(rsel) if isinstance(rsel, list) and rsel and isinstance(rsel[0], bool) else rsel
        if csel is None: ra[rs] = value
        else: ra[rs, csel] = value
        got = ('ok', ra.tolist())
    except Exception as e:
        got = ('err', type(e).__name__, str(e)[:60])
    if experr: ok = got[0]=='err'
    else: ok = got[0]=='ok' and got[1]==exp
    if not ok:
        negstep_empty = isinstance(csel, slice) and (csel.step or 1)<0 and c[0] in('rows','row') and any(len(rows[i])==0 for i in (range(len(rows)))) 
        kind=(vk, type(rsel).__name__ if not (isinstance(rsel,list) and rsel and isinstance(rsel[0],bool)) else 'mask', type(csel).__name__+ ('' if not isinstance(csel, slice) else ('+' if (csel.step or 1)>0 else '-')), 'experr' if experr else 'expok', got[0] if got[0]=='ok' else got[1], 'NE' if negstep_empty else '')
        buckets[kind].append((rows, rsel, csel, value if not isinstance(value, RaggedArray) else value.tolist(), exp, got))
for k,v in sorted(buckets.items(), key=lambda kv:-len(kv[1])):
    v.sort(key=lambda t: (len(str(t[0])), len(str(t[1:3]))))
    print(len(v), k)
    for t in v[:2]: print('     ', t)
