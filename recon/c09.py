import numpy as np, collections, random, warnings, re
warnings.simplefilter('ignore')
from npstructures import RaggedArray
exec(open('c04.py').read().split("buckets = collections")[0])
random.seed(19); rng=np.random.default_rng(19)
buckets = collections.defaultdict(list)
def run(f):
    try: return f(), None
    except Exception as e: return None, type(e).__name__+':'+re.sub(r'\d+','N',str(e)[:60])
dts2 = dts+[np.uint16,np.uint32,np.uint64]
for it in range(int(__import__("os").environ.get("RECON_N", 40000))):
    lens=rand_lengths(); d=random.choice(dts2); 
    if random.random()<.2: lens=[random.choice([0,1,30]) for _ in range(random.randint(1,4))]
    a=rand_data(sum(lens),d) if d not in(np.uint16,np.uint32,np.uint64) else rng.integers(0,1000,sum(lens)).astype(d)
    if d in (np.float32,np.float64): a = rng.choice(np.array([0.,1.5,-2.25,3.,8.]), sum(lens)).astype(d)
    ra=RaggedArray(a.copy(),lens); rows=split(a,lens)
    op=random.choice(['sum0','npsum0','mean0','colcounts','getcol'])
    L=max(lens) if lens else 0
    cols=[[r[j] for r in rows if len(r)>j] for j in range(L)]
    key=None
    if op in('sum0','npsum0'):
        if sum(lens)==0: 
            got,err=run(lambda: ra.sum(axis=0)); 
            buckets[(op,'allempty', 'n0' if not lens else '', err or 'ok:'+str(got))].append((lens,)); continue
        exp=np.array([np.sum(np.array(c,dtype=d)) for c in cols])
        got,err=run(lambda: ra.sum(axis=0) if op=='sum0' else np.sum(ra,axis=0))
        if err: key=(op,err,d.__name__)
        elif got.shape!=exp.shape or not np.array_equal(got,exp): key=(op,'values',d.__name__)
        elif got.dtype!=exp.dtype: key=(op,'dtype',d.__name__,str(got.dtype),str(exp.dtype))
    elif op=='mean0':
        if sum(lens)==0: continue
        exp=np.array([np.mean(np.array(c,dtype=d)) for c in cols])
        got,err=run(lambda: ra.mean(axis=0))
        if err: key=(op,err,d.__name__)
        elif got.shape!=exp.shape or not np.allclose(got,exp,rtol=1e-6): key=(op,'values',d.__name__)
        elif got.dtype!=exp.dtype: key=(op,'dtype',d.__name__,str(got.dtype),str(exp.dtype))
    elif op=='colcounts':
        if sum(lens)==0:
            got,err=run(lambda: ra.col_counts()); buckets[(op,'allempty','n0' if not lens else '',err or 'ok:'+str(got))].append((lens,)); continue
        exp=[len(c) for c in cols]
        got,err=run(lambda: ra.col_counts())
        if err: key=(op,err)
        elif list(got)!=exp: key=(op,'values')
    else:
        if L==0: continue
        j=random.randint(0,L-1)
        got,err=run(lambda: ra.get_column_values(j))
        if err: key=(op,err)
        elif not np.array_equal(np.asarray(got), np.array(cols[j],dtype=d)): key=(op,'values')
    if key: buckets[key].append((lens,a))
for k,v in sorted(buckets.items(), key=lambda kv:str(kv[0])):
    v.sort(key=lambda t: len(str(t)))
    print(len(v), k, '  e.g.', str(v[0])[:300].replace('\n',' '))
