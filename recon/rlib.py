import numpy as np, itertools, collections, random
from npstructures import RaggedArray
random.seed(1)
def model(rows, rsel, csel=None):
    # returns ('rows', list of lists) | ('row', list) | ('cells', list) | ('cell', v) | ('err',)
    n = len(rows)
    if rsel is Ellipsis: rsel = slice(None)
    if isinstance(rsel, int):
        if not -n <= rsel < n: return ('err',)
        sel = rows[rsel]; single=True
    elif isinstance(rsel, slice):
        sel = rows[rsel]; single=False
    elif isinstance(rsel, list) and len(rsel) and isinstance(rsel[0], bool):
        assert len(rsel)==n
        sel = [r for r,m in zip(rows, rsel) if m]; single=False
    else:
        if any(not -n <= i < n for i in rsel): return ('err',)
        sel = [rows[i] for i in rsel]; single=False
    if csel is None:
        return ('row', sel) if single else ('rows', sel)
    if single:
        if isinstance(csel, int):
            if not -len(sel) <= csel < len(sel): return ('err',)
            return ('cell', sel[csel])
        return ('row', sel[csel])
    if isinstance(csel, int):
        out=[]
        for r in sel:
            if not -len(r) <= csel < len(r): return ('err',)
            out.append(r[csel])
        return ('cells', out)
    return ('rows', [r[csel] for r in sel])

def real(ra, rsel, csel=None):
    try:
        if isinstance(rsel, list) and len(rsel) and isinstance(rsel[0], bool): rsel = np.array(rsel)
        res = ra[rsel] if csel is None else ra[rsel, csel]
        if isinstance(res, RaggedArray): return ('rows', res.tolist())
        res = np.asarray(res)
        if res.ndim==0: return ('cell', res.item())
        return ('vec', res.tolist())
    except Exception as e:
        return ('err', type(e).__name__, str(e)[:80])

def rand_rows():
    n = random.choice([0,1,2,3,4,5])
    c=0; rows=[]
    for i in range(n):
        l = random.choice([0,0,1,2,3,4])
        rows.append(list(range(c, c+l))); c+=l
    return rows
def rand_slice(n):
    def b(): return random.choice([None]*3 + list(range(-n-2, n+3)))
    return slice(b(), b(), random.choice([None,1,1,2,3,-1,-1,-2,-3]))
def rand_rsel(n):
    k = random.randrange(6)
    if k==0: return random.randint(-n-1, n)
    if k==1 or k==2: return rand_slice(n)
    if k==3: return [random.randint(-n, n-1) for _ in range(random.randint(0,4))] if n else []
    if k==4: return [random.random()<0.5 for _ in range(n)]
    return Ellipsis
def rand_csel():
    k = random.randrange(4)
    if k==0: return None
    if k==1: return random.randint(-5,5)
    return rand_slice(4)
