import numpy as np, collections, random, warnings
warnings.simplefilter('ignore')
from npstructures import RaggedArray
random.seed(3); rng = np.random.default_rng(3)
dts = [np.bool_, np.int8, np.int16, np.int32, np.int64, np.uint8, np.float32, np.float64]
binary = [np.add, np.subtract, np.multiply, np.true_divide, np.floor_divide, np.maximum, np.minimum, np.power,
          np.equal, np.not_equal, np.less, np.less_equal, np.greater, np.greater_equal,
          np.bitwise_and, np.bitwise_or, np.bitwise_xor, np.logical_and, np.logical_or, np.logical_xor, np.left_shift, np.right_shift, np.remainder]
unary = [np.negative, np.abs, np.invert, np.logical_not, np.sqrt, np.exp, np.sign, np.square, np.isnan, np.floor]
def rand_lengths():
    n = random.choice([0,1,2,3,4,5]); return [random.choice([0,0,1,2,3]) for _ in range(n)]
def rand_data(n, dt):
    if dt is np.bool_: return rng.integers(0,2,n).astype(bool)
    if np.issubdtype(dt, np.integer):
        ii = np.iinfo(dt); return rng.integers(max(ii.min,-100), min(ii.max,100), n, endpoint=True).astype(dt)
    return rng.choice(np.array([0.0,-0.0,1.5,-2.25,np.inf,-np.inf,np.nan,3.0,1e10]), n).astype(dt)
def split(flat, lens):
    out=[];c=0
    for l in lens: out.append(flat[c:c+l]); c+=l
    return out
def same(a, b):
    return a.dtype==b.dtype and a.shape==b.shape and np.array_equal(a,b, equal_nan=a.dtype.kind in 'fc')
buckets = collections.defaultdict(list)
cnt=0
for it in range(int(__import__("os").environ.get("RECON_N", 30000))):
    lens = rand_lengths(); n=sum(lens)
    d1 = random.choice(dts); d2=random.choice(dts)
    a = rand_data(n,d1); ra = RaggedArray(a.copy(), lens)
    kind = random.choice(['ragged','pyscalar','npscalar','col','unary'])
    side = random.choice(['L','R'])
    if kind=='unary':
        uf = random.choice(unary)
        try: exp = [uf(r) for r in split(a,lens)]; experr=None
        except TypeError as e: experr='TypeError'
        try: got = uf(ra); goterr=None
        except Exception as e: goterr=type(e).__name__; got=e
        key=None
        if experr or goterr:
            if bool(experr)!=bool(goterr): key=(kind, uf.__name__, experr, goterr)
        else:
            rows = list(got)
            if got.lengths.tolist()!=lens or not all(same(x,y) for x,y in zip(rows,exp)) : key=(kind, uf.__name__, 'mismatch', d1.__name__)
            if not np.array_equal(ra.ravel(), a, equal_nan=True): key=(kind,'operand modified')
        if key: buckets[key].append((lens, a, None, got if goterr else got.tolist()))
        continue
    uf = random.choice(binary)
    if kind=='ragged':
        b = rand_data(n,d2); other = RaggedArray(b.copy(), lens); brow = split(b,lens)
    elif kind=='pyscalar':
        other = random.choice([2, -1, 0, 1.5, True, 300]); brow=[other]*len(lens); b=other
    elif kind=='npscalar':
        other = rand_data(1,d2)[0]; brow=[other]*len(lens); b=other
    else:
        b = rand_data(len(lens), d2); other=b[:,None]; brow=list(b)
    arow = split(a,lens)
    try:
        exp = [uf(x,y) if side=='L' else uf(y,x) for x,y in zip(arow,brow)]; experr=None
        if not lens and kind!='ragged': pass
    except Exception as e: experr=type(e).__name__
    try:
        got = uf(ra, other) if side=='L' else uf(other, ra); goterr=None
    except Exception as e: goterr=type(e).__name__; got=str(e)[:80]
    key=None
    if experr or goterr:
        if bool(experr)!=bool(goterr): key=(kind, side, uf.__name__, 'exp:'+str(experr), 'got:'+str(goterr), d1.__name__, getattr(d2,'__name__',''))
    else:
        if not isinstance(got, RaggedArray): key=(kind, side, 'notragged', type(got).__name__)
        else:
            rows=list(got)
            if got.lengths.tolist()!=lens: key=(kind, side,'lens')
            elif not all(x.shape==y.shape and np.array_equal(x,y,equal_nan=True) for x,y in zip(rows,exp)): key=(kind,side,'values', uf.__name__, d1.__name__, getattr(d2,'__name__',''))
            elif lens and sum(lens) and not all(x.dtype==y.dtype for x,y in zip(rows,exp)): key=(kind,side,'dtype', d1.__name__, str(type(b).__name__ if kind=='pyscalar' else d2.__name__), str(rows[0].dtype), str(exp[0].dtype))
    if key: buckets[key].append((lens, a, b, got if goterr else got.tolist()))
for k,v in sorted(buckets.items(), key=lambda kv:-len(kv[1])):
    v.sort(key=lambda t: len(str(t)))
    print(len(v), k, '  e.g.', str(v[0])[:200].replace('\n',' '))
