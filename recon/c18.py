import numpy as np, collections, random, warnings, re
warnings.simplefilter('ignore')
from npstructures import npdataclass, VarLenArray, RaggedArray
from c14 import run, aeq
random.seed(53); rng=np.random.default_rng(53)
buckets = collections.defaultdict(list)
@npdataclass
class T1:
    a: np.ndarray
@npdataclass
class T2:
    a: np.ndarray
    b: np.ndarray
@npdataclass
class T3:
    a: np.ndarray
    b: np.ndarray
    c: np.ndarray
CL={1:T1,2:T2,3:T3}
names='abc'
def mk(k,n):
    fs=[]
    for i in range(k):
        if random.random()<.3: fs.append(rng.integers(0,100,(n,random.randint(1,3))))
        else: fs.append(rng.integers(0,100,n) if random.random()<.7 else rng.random(n))
    return fs
for it in range(int(__import__("os").environ.get("RECON_N", 30000))):
    k=random.randint(1,3); n=random.randint(0,6); fs=mk(k,n); C=CL[k]
    o,err=run(lambda: C(*fs))
    if err: buckets[('ctor',err,'n0' if n==0 else '')].append((k,n)); continue
    op=random.choice(['len','mismatch','int','slice','list','mask','iter','cat','eq','astype','varlen'])
    if op=='len':
        if len(o)!=n: buckets[(op,'value')].append((k,n,len(o)))
    elif op=='mismatch':
        if k<2: continue
        fs2=list(fs); i=random.randrange(k); fs2[i]=np.concatenate([fs2[i],fs2[i][:1]]) if n else np.zeros(1)
        _,err=run(lambda: C(*fs2))
        if not err: buckets[(op,'accepted', 'first' if i==0 else 'other')].append((k,n,i))
    elif op=='int':
        if n==0: continue
        i=random.randint(-n,n-1); g,err=run(lambda: o[i])
        if err: buckets[(op,err)].append((k,n,i))
        elif not all(aeq(getattr(g,names[j]),fs[j][i]) for j in range(k)): buckets[(op,'value')].append((k,n,i))
    elif op in('slice','list','mask'):
        if op=='slice': s=slice(random.choice([None,0,1,-1,2]),random.choice([None,0,1,-1,n,n+1]),random.choice([None,1,2,-1]))
        elif op=='list': s=[random.randint(-n,n-1) for _ in range(random.randint(0,4))] if n else []
        else: s=rng.integers(0,2,n).astype(bool)
        g,err=run(lambda: o[s])
        if err: buckets[(op,err,'empty' if (op=='list' and not s) else '')].append((k,n,s))
        elif not all(aeq(getattr(g,names[j]),fs[j][s if op!='list' else np.array(s,dtype=int)]) for j in range(k)) or len(g)!=len(fs[0][s if op!='list' else np.array(s,dtype=int)]): buckets[(op,'value')].append((k,n,s))
    elif op=='iter':
        g,err=run(lambda: list(o))
        if err: buckets[(op,err)].append((k,n))
        elif len(g)!=n or not all(aeq(getattr(e,names[j]),fs[j][i]) for i,e in enumerate(g) for j in range(k)): buckets[(op,'value')].append((k,n))
    elif op=='cat':
        m=random.randint(1,3); parts=[fs]
        for _ in range(m-1):
            q=random.randint(0,4); parts.append([rng.integers(0,100,(q,)+f.shape[1:]).astype(f.dtype) for f in fs])
        objs=[C(*p) for p in parts]
        g,err=run(lambda: np.concatenate(objs))
        if err: buckets[(op,err)].append((k,n,m))
        elif not all(aeq(getattr(g,names[j]),np.concatenate([p[j] for p in parts])) for j in range(k)): buckets[(op,'value')].append((k,n,m))
    elif op=='eq':
        same=random.random()<.5
        fs2=[f.copy() for f in fs]
        if not same and n:
            j=random.randrange(k); fs2[j].reshape(-1)[random.randrange(fs2[j].size)]+=1
        g,err=run(lambda: o==C(*fs2))
        if err: buckets[(op,err)].append((k,n))
        elif bool(g)!=(same or n==0): buckets[(op,'value',same)].append((k,n))
    elif op=='astype':
        if k<2: continue
        k2=random.randint(1,k-1); g,err=run(lambda: o.astype(CL[k2]))
        if err: buckets[(op,err)].append((k,n,k2))
        elif not all(aeq(getattr(g,names[j]),fs[j]) for j in range(k2)) or len(g)!=n: buckets[(op,'value')].append((k,n,k2))
    else:
        m=random.randint(1,3); arrs=[rng.integers(1,100,(random.randint(0,3),random.randint(1,4))) for _ in range(m)]
        g,err=run(lambda: np.concatenate([VarLenArray(a) for a in arrs]))
        W=max(a.shape[1] for a in arrs); exp=np.concatenate([np.pad(a,((0,0),(W-a.shape[1],0))) for a in arrs])
        if err: buckets[(op,err)].append([a.shape for a in arrs])
        elif not aeq(g.array,exp): buckets[(op,'value')].append(([a.shape for a in arrs],g.array,exp))
for k,v in sorted(buckets.items(), key=lambda kv:str(kv[0])):
    v.sort(key=lambda t: len(str(t)))
    print(len(v), k, '  e.g.', str(v[0])[:330].replace('\n',' '))
