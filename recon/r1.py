import numpy as np, collections, random, warnings, re, copy, tempfile, os
warnings.simplefilter('ignore')
from npstructures import RaggedArray, ragged_slice
from rlib import rand_rows, rand_slice
random.seed(72)
def snap(x):
    if isinstance(x, RaggedArray): return ('RA', str(x.dtype), x.tolist())
    if isinstance(x, tuple): return tuple(snap(e) for e in x)
    if isinstance(x,(int,float,bool,str,type(None))): return x
    x=np.asarray(x); return ('ND', str(x.dtype), x.shape, x.tolist())
def rand_rsel(n):
    k=random.randrange(4)
    if k==0: return rand_slice(n)
    if k==1: return [random.randint(-n,n-1) for _ in range(random.randint(0,4))] if n else []
    if k==2: return np.array([random.random()<.6 for _ in range(n)],dtype=bool)
    return rand_slice(n)
def mkview(rows):
    a=RaggedArray(copy.deepcopy(rows),dtype=np.int64)
    depth=random.randint(1,3); v=a
    for d in range(depth):
        rs=rand_rsel(len(v)); cs=rand_slice(4) if random.random()<.6 else None
        try: v = v[rs] if cs is None else v[rs,cs]
        except Exception: return None
        if not isinstance(v,RaggedArray): return None
    return v
def fresh(v):
    # build without touching v: recompute from a twin
    return None
OPS={
 'zeros_like': lambda v: np.zeros_like(v), 'ones_like': lambda v: np.ones_like(v), 'empty_like_shape': lambda v: np.empty_like(v).lengths,
 'nonzero': lambda v: np.nonzero(v), 'where': lambda v: np.where(v>3, v, -v), 'unique': lambda v: np.unique(v,axis=-1), 'uniquec': lambda v: np.unique(v,axis=-1,return_counts=True),
 'sort': lambda v: v.sort(), 'cumsum': lambda v: np.cumsum(v,axis=-1), 'diff': lambda v: np.diff(v,axis=-1), 'cat0': lambda v: np.concatenate([v,v]), 'cat1': lambda v: np.concatenate([v,v],axis=-1),
 'rslice': lambda v: ragged_slice(v, np.minimum(1,v.lengths.copy() if False else np.array([min(1,l) for l in v.tolist().__len__() and [len(r) for r in v.tolist()]],dtype=int))) ,
 'subset': lambda v: v.subset(v>3), 'maskidx': lambda v: v[v>3], 'pad': lambda v: v.as_padded_matrix() if v.size else None,
 'sum1': lambda v: v.sum(axis=-1), 'sum0': lambda v: v.sum(axis=0) if v.size else None, 'mean0': lambda v: v.mean(axis=0) if v.size else None, 'colcounts': lambda v: v.col_counts() if v.size else None,
 'getcol': lambda v: v.get_column_values(0) if v.size else None, 'astype': lambda v: v.astype(float), 'tonumpy': lambda v: v.to_numpy_array() if len(set(v.lengths.tolist()))==1 else None,
 'colleft': lambda v: np.arange(len(v))[:,None]-v, 'colright': lambda v: v-np.arange(len(v))[:,None], 'scalarleft': lambda v: 2-v, 'neg': lambda v: -v,
 'iter': lambda v: [r.tolist() for r in v], 'meta': lambda v: (len(v), v.size, v.shape[0], v.lengths.tolist(), str(v.dtype)), 'equals': lambda v: bool(v.equals(RaggedArray(v.tolist(),dtype=np.int64))) if len(v) else None,
 'any': lambda v: v.any(axis=-1), 'prod': lambda v: v.prod(axis=-1), 'acc': lambda v: np.add.accumulate(v,axis=-1), 'str': lambda v: str(v), 'repr': lambda v: repr(v),
 'shapeeq_add_self': lambda v: v+v, 'max': lambda v: v.max(axis=-1) if len(v) and min(v.lengths)>0 else None,
 'argmax': lambda v: v.argmax(axis=-1) if len(v) and min(v.lengths)>0 else None, 'sumnone': lambda v: v.sum(), 'fill': lambda v: (v.fill(7), v.tolist())[1],
 'introw': lambda v: v[0] if len(v) else None, 'elem': lambda v: v[0,0] if len(v) and v.lengths[0]>0 else None,
}
OPS['rslice']=lambda v: ragged_slice(v, np.array([min(1,l) for l in v.lengths.tolist()],dtype=int))
# note: several ops above read v.lengths / len(v) before the op; that is itself a read but does not materialise
def save_load(v):
    d=tempfile.mkdtemp(); fn=os.path.join(d,'x.npz'); v.save(fn); r=RaggedArray.load(fn); os.remove(fn); os.rmdir(d); return r
OPS['saveload']=save_load
def asvalue(v):
    t=RaggedArray([[0]*l for l in v.lengths.tolist()],dtype=np.int64); t[...]=v; return t
OPS['asvalue']=asvalue
def asmask(v):
    t=RaggedArray([list(range(l)) for l in v.lengths.tolist()],dtype=np.int64); return t[v>3]
OPS['asmask']=asmask
def other_operand(v):
    t=RaggedArray([[1]*l for l in v.lengths.tolist()],dtype=np.int64); return t-v
OPS['rightoperand']=other_operand
buckets=collections.defaultdict(list); n=0
N=int(os.environ.get('RECON_N',30000))
for it in range(N):
    rows=rand_rows()
    st=random.getstate(); v=mkview(rows)
    if v is None: continue
    random.setstate(st); w=mkview(rows)   # identical twin
    wf=RaggedArray(w.tolist(),dtype=np.int64) if len(w) else RaggedArray(np.zeros(0,dtype=np.int64),[]) # fresh
    if len(w)==0: wf=RaggedArray(w.ravel().copy(), w.lengths.copy())
    name=random.choice(list(OPS)); f=OPS[name]
    try: a=('ok',snap(f(v)))
    except Exception as e: a=('err',type(e).__name__, str(e)[:60])
    try: b=('ok',snap(f(wf)))
    except Exception as e: b=('err',type(e).__name__, str(e)[:60])
    n+=1
    if a[0]!=b[0] or (a[0]=='ok' and a!=b):
        buckets[(name,a[0],b[0], a[1] if a[0]=='err' else '')].append((rows, type(v._shape).__name__, a, b))
print('cases',n)
for k,vv in sorted(buckets.items(), key=lambda kv:-len(kv[1])):
    vv.sort(key=lambda t: len(str(t)))
    print(len(vv),k,'  e.g.',str(vv[0])[:300])
