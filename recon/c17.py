import numpy as np, collections, random, warnings, re
warnings.simplefilter('ignore')
from npstructures import RunLengthArray, RunLengthRaggedArray, RunLength2dArray, RaggedArray
from c14 import run, aeq
random.seed(47); rng=np.random.default_rng(47)
buckets = collections.defaultdict(list)
D=[np.bool_,np.int8,np.int64,np.uint8,np.float64]
def rand_row(n,dt):
    if dt is np.bool_: pool=np.array([False,True])
    elif np.issubdtype(dt,np.integer): pool=np.array([0,1,2,3,7],dtype=dt)
    else: pool=np.array([0.0,1.5,-2.25,3.0,8.0],dtype=dt)
    vals=rng.choice(pool,n); lens=rng.integers(1,4,n); return np.repeat(vals,lens)[:n].astype(dt)
def rand_slice(n):
    def b(): return random.choice([None]*3 + list(range(-n-2, n+3)))
    return slice(b(), b(), random.choice([None,1,1,2,3,-1,-1,-2]))
def torows(x):
    if isinstance(x,RaggedArray): return [np.asarray(r) for r in x]
    x=np.asarray(x); 
    return [r for r in x] if x.ndim==2 else None
def rows_eq(g,exp):
    if g is None or len(g)!=len(exp): return False
    return all(aeq(x,y) for x,y in zip(g,exp))
for it in range(int(__import__("os").environ.get("RECON_N", 60000))):
    kind=random.choice(['2d','rag','rag'])
    dt=random.choice(D); nr=random.randint(1,4)
    if kind=='2d':
        w=random.randint(1,7); rows=[rand_row(w,dt) for _ in range(nr)]; M=np.array(rows)
        rl,err=run(lambda: RunLength2dArray.from_array(M))
    else:
        rows=[rand_row(random.randint(1,7),dt) for _ in range(nr)]
        rl,err=run(lambda: RunLengthRaggedArray.from_ragged_array(RaggedArray(rows)))
    tag=(kind,)
    if err: buckets[('enc',err)+tag].append(rows); continue
    op=random.choice(['decode','meta','rowsel','elem','col','colslice','rowred','colred','ravel','cat','unary','scalar','colvec'])
    lens=[len(r) for r in rows]
    if op=='decode':
        g,err=run(lambda: rl.to_array())
        if err: buckets[(op,err)+tag].append(rows)
        elif not rows_eq(torows(g),rows): buckets[(op,'value')+tag].append((rows,g))
    elif op=='meta':
        g,err=run(lambda: (len(rl), rl.shape, rl.size))
        if err: buckets[(op,err)+tag].append(rows)
        else:
            ok = g[0]==nr and g[2]==sum(lens) and g[1][0]==nr and (list(np.atleast_1d(g[1][1]))==lens if kind=='rag' else g[1][1]==lens[0])
            if not ok: buckets[(op,'value')+tag].append((lens,g))
    elif op=='rowsel':
        sk=random.choice(['int','slice','list','mask'])
        if sk=='int': s=random.randint(-nr,nr-1); exp=[rows[s]]
        elif sk=='slice': s=rand_slice(nr); exp=rows[s]
        elif sk=='list': s=[random.randint(-nr,nr-1) for _ in range(random.randint(1,4))]; exp=[rows[i] for i in s]
        else: s=np.array([random.random()<.6 for _ in range(nr)]); exp=[r for r,m in zip(rows,s) if m]
        g,err=run(lambda: rl[s])
        if err: buckets[(op,sk,err,'emptysel' if not exp else '')+tag].append((lens,s))
        else:
            gg,err=run(lambda: [g.to_array()] if sk=='int' else torows(g.to_array()))
            if err: buckets[(op,sk,'to_array:'+err,'emptysel' if not exp else '')+tag].append((lens,s))
            elif not rows_eq(gg,exp): buckets[(op,sk,'value')+tag].append((rows,s,gg))
    elif op=='elem':
        i=random.randint(-nr,nr-1); j=random.randint(-len(rows[i]),len(rows[i])-1)
        g,err=run(lambda: rl[i,j])
        if err: buckets[(op,err,'negj' if j<0 else '')+tag].append((lens,i,j))
        elif not aeq(np.asarray(g).reshape(()),rows[i][j]): buckets[(op,'value','negj' if j<0 else '')+tag].append((rows,i,j,g))
    elif op=='col':
        if kind!='rag' and random.random()<.5: pass
        sk=random.choice(['slice','list','mask','ellipsis'])
        if sk=='slice': s=rand_slice(nr); sel=rows[s]
        elif sk=='list': s=[random.randint(-nr,nr-1) for _ in range(random.randint(1,4))]; sel=[rows[i] for i in s]
        elif sk=='mask': s=np.array([random.random()<.6 for _ in range(nr)]); sel=[r for r,m in zip(rows,s) if m]
        else: s=Ellipsis; sel=rows
        if not sel: continue
        mn=min(len(r) for r in sel); j=random.randint(-mn,mn-1)
        exp=np.array([r[j] for r in sel])
        g,err=run(lambda: rl[s,j])
        if err: buckets[(op,sk,err,'negj' if j<0 else '')+tag].append((lens,s,j))
        elif not aeq(np.asarray(g),exp): buckets[(op,sk,'value','negj' if j<0 else '')+tag].append((rows,s,j,g))
    elif op=='colslice':
        sk=random.choice(['slice','list','ellipsis'])
        if sk=='slice': s=rand_slice(nr); sel=rows[s]
        elif sk=='list': s=[random.randint(-nr,nr-1) for _ in range(random.randint(1,4))]; sel=[rows[i] for i in s]
        else: s=Ellipsis; sel=rows
        if not sel: continue
        mn=min(len(r) for r in sel)
        cs=rand_slice(mn)
        exp=[r[cs] for r in sel]
        if any(len(e)==0 for e in exp): continue   # property: non-empty in every selected row
        st=(cs.step or 1)
        if st<0:
            # bounds inside the rows
            okb = all(x is None or -mn<=x<mn for x in (cs.start,cs.stop))
            if not okb: continue
        g,err=run(lambda: rl[s,cs])
        k2=('step+' if st>0 else 'step-')+('!1' if abs(st)!=1 else '')
        if err: buckets[(op,sk,err,k2)+tag].append((lens,s,cs))
        else:
            gg,err=run(lambda: torows(g.to_array()))
            if err: buckets[(op,sk,'to_array:'+err,k2)+tag].append((lens,s,cs))
            elif not rows_eq(gg,exp): buckets[(op,sk,'value',k2)+tag].append((rows,s,cs,gg))
    elif op=='rowred':
        name=random.choice(['sum','any','all','max','mean','argmax'])
        exp,eerr=run(lambda: np.array([getattr(np,name)(r) for r in rows]))
        via=random.choice(['m','np']) if (kind=='rag' and name in('sum','mean','max')) else 'm'
        g,err=run(lambda: getattr(rl,name)(axis=-1) if via=='m' else getattr(np,name)(rl,axis=-1))
        if eerr or err:
            if bool(eerr)!=bool(err): buckets[(op,name,via,'exp:'+str(eerr)[:20],'got:'+str(err)[:50])+tag].append((rows,))
        elif not (np.asarray(g).shape==exp.shape and np.allclose(np.asarray(g,dtype=float),exp.astype(float))): buckets[(op,name,via,'value',dt.__name__)+tag].append((rows,g,exp))
    elif op=='colred':
        name=random.choice(['sum','mean','counts','any'])
        L=max(lens); cols=[[r[j] for r in rows if len(r)>j] for j in range(L)]
        if name=='sum': exp=np.array([np.sum(c) for c in cols]); f=lambda: rl.sum(axis=0)
        elif name=='mean': exp=np.array([np.mean(c) for c in cols]); f=lambda: rl.mean(axis=0)
        elif name=='counts': exp=np.array([len(c) for c in cols]); f=lambda: rl.col_counts()
        else: exp=np.array([np.any(c) for c in cols]); f=lambda: rl.any(axis=0)
        if name in('mean','counts') and kind=='2d': continue
        if name=='any' and kind=='rag': continue
        g,err=run(f)
        if err: buckets[(op,name,err,dt.__name__)+tag].append((rows,))
        else:
            gg,err=run(lambda: np.asarray(g))
            if err: buckets[(op,name,'asarray:'+err)+tag].append((rows,))
            elif not (gg.shape==exp.shape and np.allclose(gg.astype(float),exp.astype(float))): buckets[(op,name,'value',dt.__name__)+tag].append((rows,gg,exp))
    elif op=='ravel':
        if kind=='2d': continue
        g,err=run(lambda: rl.ravel().to_array())
        if err: buckets[(op,err)+tag].append((rows,))
        elif not aeq(g,np.concatenate(rows)): buckets[(op,'value')+tag].append((rows,g))
    elif op=='cat':
        if kind=='2d': continue
        rows2=[rand_row(random.randint(1,7),dt) for _ in range(random.randint(1,3))]
        rl2=RunLengthRaggedArray.from_ragged_array(RaggedArray(rows2))
        g,err=run(lambda: np.concatenate([rl,rl2]))
        if err: buckets[(op,err)+tag].append((rows,))
        else:
            gg,err=run(lambda: torows(g.to_array()))
            if err: buckets[(op,'to_array:'+err)+tag].append((rows,rows2))
            elif not rows_eq(gg,rows+rows2): buckets[(op,'value')+tag].append((rows,rows2,gg))
    elif op=='unary':
        uf=random.choice([np.negative,np.abs,np.logical_not,np.square,np.sign])
        exp,eerr=run(lambda: [uf(r) for r in rows]); g,err=run(lambda: uf(rl))
        if eerr or err:
            if bool(eerr)!=bool(err): buckets[(op,uf.__name__,'exp:'+str(eerr)[:20],'got:'+str(err)[:50])+tag].append((rows,))
        else:
            gg,err=run(lambda: torows(g.to_array()))
            if err: buckets[(op,'to_array:'+err)+tag].append((rows,))
            elif not rows_eq(gg,exp): buckets[(op,'value',uf.__name__)+tag].append((rows,gg))
    elif op in('scalar','colvec'):
        uf=random.choice([np.add,np.subtract,np.multiply,np.maximum,np.less,np.equal,np.bitwise_and,np.logical_or,np.true_divide])
        left=random.random()<.5
        if op=='scalar': s=random.choice([2,3,1.5,True]); srow=[s]*nr
        else: sv=rand_row(nr,random.choice(D)); s=sv[:,None]; srow=list(sv)
        exp,eerr=run(lambda: [uf(x,r) if left else uf(r,x) for r,x in zip(rows,srow)])
        g,err=run(lambda: uf(s,rl) if left else uf(rl,s))
        comm = uf in (np.add,np.multiply,np.maximum,np.equal,np.bitwise_and,np.logical_or)
        if eerr or err:
            if bool(eerr)!=bool(err): buckets[(op,'L' if left else 'R','exp:'+str(eerr)[:20],'got:'+str(err)[:50])+tag].append((rows,s,uf.__name__))
        else:
            gg,err=run(lambda: torows(g.to_array()))
            if err: buckets[(op,'L' if left else 'R','to_array:'+err)+tag].append((rows,s,uf.__name__))
            elif not rows_eq(gg,exp): buckets[(op,'L' if left else 'R','value','comm' if comm else 'noncomm')+tag].append((rows,s,uf.__name__,gg))
for k,v in sorted(buckets.items(), key=lambda kv:str(kv[0])):
    v.sort(key=lambda t: len(str(t)))
    print(len(v), k, '  e.g.', str(v[0])[:330].replace('\n',' '))
