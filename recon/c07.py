import numpy as np, collections, random, warnings
warnings.simplefilter('ignore')
from npstructures import RaggedArray
exec(open('c04.py').read().split("buckets = collections")[0])
random.seed(13); rng=np.random.default_rng(13)
buckets = collections.defaultdict(list)
def rows_eq(got, exp, lens, check_dtype=True):
    if not isinstance(got, RaggedArray): return 'notragged:'+type(got).__name__
    g = list(got)
    if len(g)!=len(exp): return 'nrows'
    for x,y in zip(g,exp):
        if x.shape!=np.asarray(y).shape: return 'rowlen'
        if not np.array_equal(x,y,equal_nan=True): return 'values'
    if check_dtype and len(exp) and got.dtype!=np.asarray(exp[0]).dtype: return 'dtype:%s!=%s'%(got.dtype, np.asarray(exp[0]).dtype)
    return None
for it in range(int(__import__("os").environ.get("RECON_N", 60000))):
    lens = rand_lengths(); n=sum(lens)
    d1 = random.choice(dts)
    a = rand_data(n,d1); ra = RaggedArray(a.copy(), lens); rows = split(a,lens)
    op = random.choice(['cumsum','acc_add','acc_sub','acc_xor','sort','unique','unique_c','diff'])
    pos = 'trail0' if lens and lens[-1]==0 else ('lead0' if lens and lens[0]==0 else ('mid0' if 0 in lens else 'no0'))
    if n==0: pos='size0'
    if not lens: pos='n0'
    try:
        if op=='cumsum': exp=[np.cumsum(r) for r in rows]; f=lambda: np.cumsum(ra, axis=-1)
        elif op=='acc_add': exp=[np.add.accumulate(r) for r in rows]; f=lambda: np.add.accumulate(ra, axis=-1)
        elif op=='acc_sub': exp=[np.subtract.accumulate(r) for r in rows]; f=lambda: np.subtract.accumulate(ra, axis=-1)
        elif op=='acc_xor': exp=[np.bitwise_xor.accumulate(r) for r in rows]; f=lambda: np.bitwise_xor.accumulate(ra, axis=-1)
        elif op=='sort': exp=[np.sort(r) for r in rows]; f=lambda: ra.sort(axis=-1)
        elif op=='unique': exp=[np.unique(r) for r in rows]; f=lambda: np.unique(ra, axis=-1)
        elif op=='unique_c': exp=[np.unique(r, return_counts=True) for r in rows]; f=lambda: np.unique(ra, axis=-1, return_counts=True)
        elif op=='diff':
            k=random.choice([1,1,2,3]); exp=[np.diff(r, n=k) if len(r) else r[:0] for r in rows]; f=lambda: np.diff(ra, n=k, axis=-1)
        experr=None
    except Exception as e: experr=type(e).__name__
    try: got=f(); goterr=None
    except Exception as e: goterr=type(e).__name__+':'+__import__('re').sub(r'\d+','N',str(e)[:50])
    key=None
    isint = np.issubdtype(d1,np.integer)
    if experr or goterr:
        if bool(experr)!=bool(goterr): key=(op,'exp:'+str(experr),'got:'+str(goterr), pos, np.dtype(d1).kind)
    else:
        if op=='unique_c':
            r1 = rows_eq(got[0],[e[0] for e in exp],lens); r2 = rows_eq(got[1],[e[1] for e in exp],lens, False)
            r = r1 or r2
        else: r = rows_eq(got,exp,lens)
        if r: key=(op,r,pos,np.dtype(d1).kind)
    if key: buckets[key].append((lens,a, None if goterr else (got.tolist() if isinstance(got,RaggedArray) else str(got)[:80])))
for k,v in sorted(buckets.items(), key=lambda kv:str(kv[0])):
    v.sort(key=lambda t: len(str(t)))
    print(len(v), k, '  e.g.', str(v[0])[:220].replace('\n',' '))
