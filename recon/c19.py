import numpy as np, collections, random, warnings, re, sys
warnings.simplefilter('ignore')
from npstructures import RaggedArray
from npstructures.raggedshape import ViewBase, RaggedShape, RaggedView, RaggedView2
from rlib import model, rand_rows, rand_slice, rand_csel, rand_rsel, real
random.seed(59)
def both(f):
    out=[]
    for dt in (np.int64, np.int32):
        ViewBase.set_dtype(dt)
        try:
            r=f()
            out.append(('ok', r))
        except Exception as e:
            out.append(('err', type(e).__name__))
    ViewBase.set_dtype(np.int64)
    return out
buckets=collections.defaultdict(list)
for it in range(int(__import__("os").environ.get("RECON_N", 20000))):
    rows=rand_rows(); rsel=rand_rsel(len(rows)); csel=rand_csel()
    def f():
        ra=RaggedArray(rows,dtype=np.int64)
        return real(ra,rsel,csel)
    a,b=both(f)
    if a!=b:
        kind=(type(rsel).__name__ if not (isinstance(rsel,list) and rsel and isinstance(rsel[0],bool)) else 'mask', 'step' if isinstance(rsel,slice) and rsel.step not in(None,1) else '', type(csel).__name__, str(a[1][0] if a[0]=='ok' else a)[:20], str(b[1][:2] if b[0]=='ok' else b)[:60])
        buckets[kind].append((rows,rsel,csel,a,b))
for k,v in sorted(buckets.items(), key=lambda kv:-len(kv[1])):
    v.sort(key=lambda t: len(str(t)))
    print(len(v), k, '  e.g.', str(v[0])[:300])
# other ops
ops = {
 'sum-1': lambda ra: ra.sum(axis=-1).tolist(),
 'sum0': lambda ra: ra.sum(axis=0).tolist(),
 'add_col': lambda ra: (ra + np.arange(len(ra))[:,None]).tolist(),
 'cumsum': lambda ra: np.cumsum(ra,axis=-1).tolist(),
 'sort': lambda ra: ra.sort().tolist(),
 'unique': lambda ra: np.unique(ra,axis=-1).tolist(),
 'diff': lambda ra: np.diff(ra,axis=-1).tolist(),
 'nonzero': lambda ra: [x.tolist() for x in np.nonzero(ra)],
 'concat': lambda ra: np.concatenate([ra,ra]).tolist(),
 'pad': lambda ra: ra.as_padded_matrix().tolist(),
 'save': None,
 'mean0': lambda ra: ra.mean(axis=0).tolist(),
 'colcounts': lambda ra: ra.col_counts().tolist(),
 'assign': lambda ra: (ra.__setitem__(slice(None,None,2), -1), ra.tolist())[1],
 'subset': lambda ra: ra.subset(ra>2).tolist(),
 'lengths_dtype': lambda ra: str(ra.lengths.dtype),
 'shape_dtype': lambda ra: str(ra.shape[1].dtype),
}
b2=collections.defaultdict(list)
for it in range(int(__import__("os").environ.get("RECON_N", 5000))):
    rows=rand_rows()
    for name,fn in ops.items():
        if fn is None: continue
        a,b=both(lambda: fn(RaggedArray(rows,dtype=np.int64)))
        if a!=b: b2[(name,str(a)[:40],str(b)[:60])].append(rows)
for k,v in sorted(b2.items(), key=lambda kv:-len(kv[1])):
    v.sort(key=lambda t: len(str(t)))
    print(len(v), k, '  e.g.', str(v[0])[:200])
