import numpy as np, collections, random, warnings
warnings.simplefilter('ignore')
from npstructures import RaggedArray
exec(open('c04.py').read().split("buckets = collections")[0])
random.seed(5); rng=np.random.default_rng(5)
buckets = collections.defaultdict(list)
for it in range(int(__import__("os").environ.get("RECON_N", 60000))):
    lens = rand_lengths(); n=sum(lens)
    d1 = random.choice(dts); d2=random.choice(dts)
    a = rand_data(n,d1); ra = RaggedArray(a.copy(), lens)
    kind = random.choice(['ragged','pyscalar','npscalar','0d','col','collist'])
    side = random.choice(['L','R'])
    uf = random.choice(binary)
    rowidx = np.repeat(np.arange(len(lens)), lens)
    if kind=='ragged':
        b = rand_data(n,d2); other = RaggedArray(b.copy(), lens); bflat=b
    elif kind=='pyscalar':
        other = random.choice([2, -1, 0, 1.5, True, 300]); bflat=other; b=other
    elif kind=='npscalar':
        other = rand_data(1,d2)[0]; bflat=other; b=other
    elif kind=='0d':
        other = np.array(rand_data(1,d2)[0]); bflat=other; b=other
    else:
        b = rand_data(len(lens), d2); other=b[:,None]; bflat=b[rowidx]
        if kind=='collist': other = other.tolist(); bflat = np.asarray(other).reshape(-1)[rowidx] if len(lens) else np.asarray(other).reshape(-1)
    try:
        exp = uf(a,bflat) if side=='L' else uf(bflat,a); experr=None
    except Exception as e: experr=type(e).__name__
    try:
        got = uf(ra, other) if side=='L' else uf(other, ra); goterr=None
    except Exception as e: goterr=type(e).__name__; got=str(e)[:80]
    key=None
    d2n = type(b).__name__ if kind=='pyscalar' else d2.__name__
    if experr or goterr:
        if bool(experr)!=bool(goterr): key=(kind, 'exp:'+str(experr), 'got:'+str(goterr), d2n if kind in('npscalar',) else '')
    else:
        if not isinstance(got, RaggedArray): key=(kind, 'notragged', type(got).__name__)
        else:
            g = got.ravel()
            if got.lengths.tolist()!=lens: key=(kind,'lens')
            elif not np.array_equal(g, exp, equal_nan=True): key=(kind,'values', uf.__name__, d1.__name__, d2n)
            elif g.dtype!=exp.dtype: key=(kind,'dtype', 'empty' if n==0 else '', )
    if key: buckets[key].append((lens, a, b, side, uf.__name__, got if goterr else (got.tolist(), got.dtype), None if experr else (exp, )))
for k,v in sorted(buckets.items(), key=lambda kv:-len(kv[1])):
    v.sort(key=lambda t: len(str(t)))
    print(len(v), k, '  e.g.', str(v[0])[:300].replace('\n',' '))
