import numpy as np, itertools, collections, random
from npstructures import RaggedArray
random.seed(1)
def model(rows, rsel, csel=None):
    # returns ('rows', list of lists) | ('row', list) | ('cells', list) | ('cell', v) | ('err',)
    n = len(rows)
    if rsel is Ellipsis: rsel = slice(None)
    if isinstance(rsel, int):
        if not -n <= rsel < n: return ('err',)
        sel = rows[rsel]; single=True
    elif isinstance(rsel, slice):
        sel = rows[rsel]; single=False
    elif isinstance(rsel, list) and len(rsel) and isinstance(rsel[0], bool):
        assert len(rsel)==n
        sel = [r for r,m in zip(rows, rsel) if m]; single=False
    else:
        if any(not -n <= i < n for i in rsel): return ('err',)
        sel = [rows[i] for i in rsel]; single=False
    if csel is None:
        return ('row', sel) if single else ('rows', sel)
    if single:
        if isinstance(csel, int):
            if not -len(sel) <= csel < len(sel): return ('err',)
            return ('cell', sel[csel])
        return ('row', sel[csel])
    if isinstance(csel, int):
        out=[]
        for r in sel:
            if not -len(r) <= csel < len(r): return ('err',)
            out.append(r[csel])
        return ('cells', out)
    return ('rows', [r[csel] for r in sel])

def real(ra, rsel, csel=None):
    try:
        if isinstance(rsel, list) and len(rsel) and isinstance(rsel[0], bool): rsel = np.array(rsel)
        res = ra[rsel] if csel is None else ra[rsel, csel]
        if isinstance(res, RaggedArray): return ('rows', res.tolist())
        res = np.asarray(res)
        if res.ndim==0: return ('cell', res.item())
        return ('vec', res.tolist())
    except Exception as e:
        return ('err', type(e).__name__, str(e)[:80])

def rand_rows():
    n = random.choice([0,1,2,3,4,5])
    c=0; rows=[]
    for i in range(n):
        l = random.choice([0,0,1,2,3,4])
        rows.append(list(range(c, c+l))); c+=l
    return rows
def rand_slice(n):
    def b(): return random.choice([None]*3 + list(range(-n-2, n+3)))
    return slice(b(), b(), random.choice([None,1,1,2,3,-1,-1,-2,-3]))
def rand_rsel(n):
    k = random.randrange(6)
    if k==0: return random.randint(-n-1, n)
    if k==1 or k==2: return rand_slice(n)
    if k==3: return [random.randint(-n, n-1) for _ in range(random.randint(0,4))] if n else []
    if k==4: return [random.random()<0.5 for _ in range(n)]
    return Ellipsis
def rand_csel():
    k = random.randrange(4)
    if k==0: return None
    if k==1: return random.randint(-5,5)
    return rand_slice(4)
buckets = collections.defaultdict(list)
N=0
for it in range(int(__import__("os").environ.get("RECON_N", 60000))):
    rows = rand_rows()
    rsel = rand_rsel(len(rows)); csel = rand_csel()
    if isinstance(rsel, list) and len(rsel)==0 and len(rows)==0 : pass
    m = model(rows, rsel, csel)
    ra = RaggedArray(rows, dtype=np.int64) if True else None
    r = real(ra, rsel, csel)
    N+=1
    ok = False
    if m[0]=='err': ok = r[0]=='err'
    elif r[0]=='err': ok=False
    elif m[0]=='rows': ok = r[0]=='rows' and r[1]==m[1]
    elif m[0] in('row','cells'): ok = r[0]=='vec' and r[1]==m[1]
    elif m[0]=='cell': ok = r[0]=='cell' and r[1]==m[1]
    if not ok:
        kind = (type(rsel).__name__ if not (isinstance(rsel,list) and rsel and isinstance(rsel[0],bool)) else 'mask',
                type(csel).__name__ + ('' if not isinstance(csel, slice) else ('+' if (csel.step or 1)>0 else '-')),
                m[0], r[0] if r[0]!='err' else r[1])
        buckets[kind].append((rows, rsel, csel, m, r))
print(N)
for k,v in sorted(buckets.items(), key=lambda kv:-len(kv[1])):
    v.sort(key=lambda t: (len(str(t[0])), len(str(t[1:3]))))
    print(len(v), k); 
    for t in v[:3]: print('     ', t)
print("==== residual after excluding A (neg int col below -len) and B (neg step & empty row in selection)")
res = collections.defaultdict(list)
for k, v in buckets.items():
    for (rows, rsel, csel, m, r) in v:
        if isinstance(csel, int) and csel < 0: 
            # class A if some selected row has len < -csel
            continue
        if isinstance(csel, slice) and (csel.step or 1) < 0:
            mm = model(rows, rsel)
            sel = mm[1] if mm[0]=='rows' else [mm[1]]
            if any(len(x)==0 for x in sel): continue
        res[k].append((rows, rsel, csel, m, r))
for k,v in sorted(res.items(), key=lambda kv:-len(kv[1])):
    print(len(v), k)
    for t in v[:4]: print('     ', t)
