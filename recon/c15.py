import numpy as np, collections, random, warnings, re
warnings.simplefilter('ignore')
from npstructures import RunLengthArray, RunLengthRaggedArray, RaggedArray
from c14 import *
random.seed(41); rng=np.random.default_rng(41)
buckets = collections.defaultdict(list)
def rand_slice(n):
    def b(): return random.choice([None]*3 + list(range(-n-3, n+4)))
    return slice(b(), b(), random.choice([None,1,1,2,3,5,-1,-1,-2,-3]))
for it in range(int(__import__("os").environ.get("RECON_N", 60000))):
    a=rand_arr(dt=random.choice([np.int64,np.int8,np.bool_,np.float64,np.uint8])); n=len(a)
    r=RunLengthArray.from_array(a)
    op=random.choice(['int','list','arr','boolmask','rlmask','slice','slice','slice','windows'])
    tag=()
    if op=='int':
        i=random.randint(-n,n-1); it_=random.choice([i,np.int64(i)])
        g,err=run(lambda: r[it_])
        if err: buckets[(op,err,'neg' if i<0 else '')].append((a,i))
        elif not aeq(g,a[i]): buckets[(op,'value','neg' if i<0 else '')].append((a,i,g))
        # out of range
        j=random.choice([n,n+1,-n-1])
        g,err=run(lambda: r[j])
        if not err: buckets[(op,'oob accepted', 'pos' if j>0 else 'neg')].append((a,j,g))
    elif op in('list','arr'):
        idx=[random.randint(-n,n-1) for _ in range(random.randint(0,6))]
        q=idx if op=='list' else np.array(idx,dtype=int)
        g,err=run(lambda: r[q])
        if err: buckets[(op,err,'empty' if not idx else '')].append((a,idx))
        elif not aeq(np.asarray(g),a[np.array(idx,dtype=int)]): buckets[(op,'value')].append((a,idx,g))
    elif op=='boolmask':
        m=rng.integers(0,2,n).astype(bool)
        q=m if random.random()<.5 else m.tolist()
        g,err=run(lambda: r[q])
        if err: buckets[(op,err,type(q).__name__, 'allF' if not m.any() else '')].append((a,m))
        elif not aeq(np.asarray(g),a[m]): buckets[(op,'value',type(q).__name__)].append((a,m,g))
    elif op=='rlmask':
        m=np.repeat(rng.integers(0,2,n).astype(bool), rng.integers(1,4,n))[:n]
        g,err=run(lambda: r[RunLengthArray.from_array(m)])
        kind='allF' if not m.any() else ('allT' if m.all() else '')
        if err: buckets[(op,err,kind)].append((a,m))
        else:
            gg,err=run(lambda: np.asarray(g))
            if err: buckets[(op,'asarray:'+err,kind)].append((a,m))
            elif not aeq(gg,a[m]): buckets[(op,'value',kind,type(g).__name__)].append((a,m,gg))
            elif isinstance(g,RunLengthArray) and canon(g,False): buckets[(op,'canon',canon(g,False))].append((a,m))
    elif op=='slice':
        s=rand_slice(n); exp=a[s]
        g,err=run(lambda: r[s])
        oob = any(x is not None and (x>n or x< -n) for x in (s.start,s.stop))
        kind=('step%+d'%(1 if (s.step or 1)>0 else -1) + ('!1' if abs(s.step or 1)!=1 else ''), 'oob' if oob else '', 'emptyexp' if len(exp)==0 else '')
        if err: buckets[(op,err)+kind].append((a,s))
        else:
            gg,err=run(lambda: g.to_array() if len(exp) or True else None)
            if err: buckets[(op,'to_array:'+err)+kind].append((a,s))
            elif not aeq(gg,exp): buckets[(op,'value')+kind].append((a,s,gg,exp))
            else:
                c=canon(g, strict_vals=(abs(s.step or 1)!=1)) if len(exp) else None
                if c: buckets[(op,'canon',c)+kind].append((a,s,g._events,g._values))
    else:
        k=random.randint(0,4)
        st=[random.randint(0,n-1) for _ in range(k)]; en=[random.randint(s+1,n) for s in st]
        g,err=run(lambda: r[np.array(st,dtype=int):np.array(en,dtype=int)])
        if err: buckets[(op,err,'k0' if k==0 else '')].append((a,st,en))
        else:
            gg,err=run(lambda: g.to_array())
            if err: buckets[(op,'to_array:'+err,'k0' if k==0 else '')].append((a,st,en))
            else:
                exp=[a[s:e] for s,e in zip(st,en)]
                rows=list(gg) if isinstance(gg,RaggedArray) else None
                if rows is None or len(rows)!=len(exp) or not all(aeq(x,y) for x,y in zip(rows,exp)): buckets[(op,'value')].append((a,st,en,gg))
for k,v in sorted(buckets.items(), key=lambda kv:str(kv[0])):
    v.sort(key=lambda t: len(str(t)))
    print(len(v), k, '  e.g.', str(v[0])[:300].replace('\n',' '))
