import numpy as np, collections, random, warnings, re
warnings.simplefilter('ignore')
from npstructures.bitarray import BitArray
random.seed(31); rng=np.random.default_rng(31)
buckets = collections.defaultdict(list)
def run(f):
    try: return f(), None
    except Exception as e: return None, type(e).__name__+':'+re.sub(r'\d+','N',str(e)[:70])
dts=[np.uint8,np.int8,np.int16,np.uint16,np.int32,np.uint32,np.int64,np.uint64]
for it in range(int(__import__("os").environ.get("RECON_N", 40000))):
    b=random.choice([1,2,4,8,16,32,64]); per=64//b
    n=random.choice([0,1,2,per-1,per,per+1,2*per,2*per+3,random.randint(0,200)])
    n=max(n,0)
    dt=random.choice(dts)
    hi=min(2**b-1, np.iinfo(dt).max)
    a=rng.integers(0,hi,n,endpoint=True,dtype=np.uint64).astype(dt)
    tag=('b=%d'%b,)
    p,err=run(lambda: BitArray.pack(a,b))
    if err: buckets[('pack',err, 'n0' if n==0 else '')+tag].append((n,dt.__name__)); continue
    u,err=run(lambda: p.unpack())
    if err: buckets[('unpack',err,'n0' if n==0 else '')+tag].append((n,dt.__name__)); continue
    if u.shape!=a.shape or not np.array_equal(u.astype(np.uint64),a.astype(np.uint64)): buckets[('roundtrip','value')+tag].append((n,dt.__name__,a[:5],u[:5])); continue
    if n:
        i=random.randrange(n)
        for idx in (i, np.int64(i), i-n):
            g,err=run(lambda: p[idx])
            if err: buckets[('getint',err,type(idx).__name__, 'neg' if idx<0 else '')+tag].append((n,i))
            elif int(g)!=int(a[i]): buckets[('getint','value',type(idx).__name__,'neg' if idx<0 else '')+tag].append((n,i,int(g),int(a[i])))
        pos=[random.randrange(n) for _ in range(random.randint(0,10))]
        g,err=run(lambda: p[pos].unpack())
        if err: buckets[('getlist',err, 'empty' if not pos else '')+tag].append((n,pos))
        elif not np.array_equal(g.astype(np.uint64), a[pos].astype(np.uint64)): buckets[('getlist','value')+tag].append((n,pos))
        g,err=run(lambda: p[np.array(pos,dtype=int)].unpack())
        if err: buckets[('getarr',err, 'empty' if not pos else '')+tag].append((n,pos))
        elif not np.array_equal(g.astype(np.uint64), a[pos].astype(np.uint64)): buckets[('getarr','value')+tag].append((n,pos))
    w=random.randint(1,per)
    exp=[sum(int(a[i+j])<<(b*j) for j in range(w)) for i in range(max(n-w+1,0))]
    g,err=run(lambda: p.sliding_window(w))
    kind=('w=per' if w==per else 'w<per', 'n<w' if n<w else '')
    if err: buckets[('window',err)+kind+tag].append((n,w))
    elif [int(x) for x in g]!=exp: buckets[('window','value')+kind+tag].append((n,w,[int(x) for x in g][:4],exp[:4]))
for k,v in sorted(buckets.items(), key=lambda kv:str(kv[0])):
    v.sort(key=lambda t: len(str(t)))
    print(len(v), k, '  e.g.', str(v[0])[:260].replace('\n',' '))
