import numpy as np, collections, random, warnings, re, os
warnings.simplefilter('ignore')
from npstructures import RunLengthArray, RunLengthRaggedArray, RunLength2dArray, RaggedArray
from c14 import run, aeq
random.seed(83); rng=np.random.default_rng(83)
buckets=collections.defaultdict(list)
D=[np.bool_,np.int8,np.int64,np.uint8,np.float64]
def rand_row(n,dt):
    if dt is np.bool_: pool=np.array([False,True])
    elif np.issubdtype(dt,np.integer): pool=np.array([0,1,2,3,7],dtype=dt)
    else: pool=np.array([0.0,1.5,-2.25,3.0,8.0],dtype=dt)
    vals=rng.choice(pool,n); lens=rng.integers(1,4,n); return np.repeat(vals,lens)[:n].astype(dt)
def rsel(nr):
    k=random.randrange(3)
    if k==0:
        def b(): return random.choice([None]*3+list(range(-nr-1,nr+2)))
        return slice(b(),b(),random.choice([None,1,2,-1,-2]))
    if k==1: return [random.randint(-nr,nr-1) for _ in range(random.randint(1,4))]
    return np.array([random.random()<.7 for _ in range(nr)])
def sel_rows(rows,s):
    if isinstance(s,slice): return rows[s]
    if isinstance(s,list): return [rows[i] for i in s]
    return [r for r,m in zip(rows,s) if m]
def torows(x):
    if isinstance(x,RaggedArray): return [np.asarray(r) for r in x]
    x=np.asarray(x); return [r for r in x] if x.ndim==2 else ([] if x.size==0 else None)
def rows_eq(g,exp):
    return g is not None and len(g)==len(exp) and all(aeq(x,y) for x,y in zip(g,exp))
N=int(os.environ.get('RECON_N',30000))
for it in range(N):
    mode=random.choice(['chain2d','chainrag','intervals','colany','tupleforms'])
    dt=random.choice(D); nr=random.randint(1,5)
    if mode in('chain2d','chainrag'):
        if mode=='chain2d':
            w=random.randint(1,7); rows=[rand_row(w,dt) for _ in range(nr)]; rl=RunLength2dArray.from_array(np.array(rows))
        else:
            rows=[rand_row(random.randint(1,7),dt) for _ in range(nr)]; rl=RunLengthRaggedArray.from_ragged_array(RaggedArray(rows))
        s1=rsel(nr); r1=sel_rows(rows,s1)
        g,err=run(lambda: rl[s1])
        if err: buckets[(mode,'sel1',err[:50])].append((len(rows),s1)); continue
        if not r1: continue
        s2=rsel(len(r1)); r2=sel_rows(r1,s2)
        g2,err=run(lambda: g[s2])
        if err: buckets[(mode,'sel2',err[:60],type(s1).__name__,type(s2).__name__)].append(([len(r) for r in rows],s1,s2)); continue
        op=random.choice(['decode','sum','any','elem','colsum','ufunc','meta'])
        if op=='decode':
            gg,err=run(lambda: torows(g2.to_array()))
            if err: buckets[(mode,op,err[:60])].append((s1,s2))
            elif not rows_eq(gg,r2): buckets[(mode,op,'value')].append((rows,s1,s2,gg))
        elif op=='sum' and r2:
            gg,err=run(lambda: np.asarray(g2.sum(axis=-1)))
            exp=np.array([np.sum(r) for r in r2])
            if err: buckets[(mode,op,err[:60])].append((s1,s2))
            elif not np.allclose(gg.astype(float),exp.astype(float)): buckets[(mode,op,'value')].append((rows,s1,s2,gg,exp))
        elif op=='any' and r2:
            gg,err=run(lambda: np.asarray(g2.any(axis=-1)))
            if err: buckets[(mode,op,err[:60])].append((s1,s2))
            elif list(gg)!=[bool(np.any(r)) for r in r2]: buckets[(mode,op,'value')].append((rows,s1,s2,gg))
        elif op=='elem' and r2:
            i=random.randrange(len(r2)); j=random.randint(-len(r2[i]),len(r2[i])-1)
            gg,err=run(lambda: g2[i,j])
            if err: buckets[(mode,op,err[:60])].append((s1,s2,i,j))
            elif not aeq(np.asarray(gg).reshape(()),r2[i][j]): buckets[(mode,op,'value')].append((rows,s1,s2,i,j,gg))
        elif op=='colsum' and r2:
            L=max(len(r) for r in r2); exp=np.array([np.sum([r[j] for r in r2 if len(r)>j]) for j in range(L)])
            gg,err=run(lambda: np.asarray(g2.sum(axis=0)))
            if err: buckets[(mode,op,err[:60])].append((s1,s2))
            elif gg.shape!=exp.shape or not np.allclose(gg.astype(float),exp.astype(float)): buckets[(mode,op,'value',dt.__name__)].append((rows,s1,s2,gg,exp))
        elif op=='ufunc' and r2:
            gg,err=run(lambda: torows((g2+1).to_array()))
            e2,eerr=run(lambda: [r+1 for r in r2])
            if bool(err)!=bool(eerr): buckets[(mode,op,str(err)[:50],str(eerr)[:30])].append((s1,s2))
            elif not err and not rows_eq(gg,e2): buckets[(mode,op,'value')].append((rows,s1,s2,gg))
        elif op=='meta':
            gg,err=run(lambda: (len(g2), g2.size))
            if err: buckets[(mode,op,err[:60])].append((s1,s2))
            elif gg[0]!=len(r2) or (r2 and gg[1]!=sum(len(r) for r in r2)): buckets[(mode,op,'value')].append((rows,s1,s2,gg))
    elif mode=='intervals':
        L=random.randint(1,10); k=random.randint(0,5)
        st=np.array([random.randint(0,L-1) for _ in range(k)],dtype=int); en=np.array([random.randint(s+1,L) for s in st],dtype=int)
        vk=random.choice(['default','scalar','per'])
        val = 1 if vk=='default' else (3 if vk=='scalar' else np.arange(2,2+k))
        exp=np.zeros((k,L),dtype=int)
        for i,(s,e) in enumerate(zip(st,en)): exp[i,s:e]= val if np.isscalar(val) else val[i]
        g,err=run(lambda: RunLength2dArray.from_intervals(st,en,L) if vk=='default' else RunLength2dArray.from_intervals(st,en,L,value=val))
        if err: buckets[(mode,'ctor',err[:60],vk,'k0' if k==0 else '')].append((st,en,L)); continue
        gg,err=run(lambda: np.asarray(g.to_array()))
        if err: buckets[(mode,'decode',err[:60],vk,'k0' if k==0 else '')].append((st,en,L))
        elif k and (gg.shape!=exp.shape or not np.array_equal(gg,exp)): buckets[(mode,'value',vk)].append((st,en,L,gg))
        if k and not err:
            gg,err=run(lambda: (len(g), g.shape, g.size, np.asarray(g.sum(axis=-1)), np.asarray(g.sum(axis=0)), np.asarray(g.any(axis=0))))
            if err: buckets[(mode,'ops',err[:60],vk)].append((st,en,L))
            else:
                if gg[0]!=k or tuple(gg[1])!=(k,L) or gg[2]!=k*L: buckets[(mode,'meta')].append((st,en,L,gg[:3]))
                if not np.array_equal(gg[3],exp.sum(axis=1)): buckets[(mode,'rowsum',vk)].append((st,en,L,gg[3]))
                if gg[4].shape!=(L,) or not np.array_equal(gg[4],exp.sum(axis=0)): buckets[(mode,'colsum',vk)].append((st,en,L,gg[4],exp.sum(axis=0)))
                if gg[5].shape!=(L,) or not np.array_equal(gg[5],exp.any(axis=0)): buckets[(mode,'colany',vk)].append((st,en,L,gg[5],exp.any(axis=0)))
    elif mode=='colany':
        L=random.randint(1,12); nr=random.randint(1,6); M=np.zeros((nr,L),dtype=random.choice([bool,np.int64]))
        for i in range(nr):
            for _ in range(random.randint(0,3)):
                s=random.randint(0,L-1); e=random.randint(s+1,L); M[i,s:e]=1 if M.dtype==bool else random.randint(1,3)
        rl=RunLength2dArray.from_array(M)
        gg,err=run(lambda: np.asarray(rl.any(axis=random.choice([0,-2]))))
        if err: buckets[(mode,err[:70],str(M.dtype))].append((M.tolist(),))
        elif gg.shape!=(L,) or not np.array_equal(gg.astype(bool),M.any(axis=0)): buckets[(mode,'value',str(M.dtype))].append((M.astype(int).tolist(),gg.astype(int).tolist()))
        gg,err=run(lambda: np.asarray(rl.sum(axis=0)))
        if err: buckets[(mode,'colsum',err[:70],str(M.dtype))].append((M.tolist(),))
        elif gg.shape!=(L,) or not np.array_equal(gg,M.sum(axis=0)): buckets[(mode,'colsum value',str(M.dtype))].append((M.astype(int).tolist(),gg.tolist()))
    else:
        rows=[rand_row(random.randint(1,7),dt) for _ in range(nr)]; rl=RunLengthRaggedArray.from_ragged_array(RaggedArray(rows))
        a=rand_row(random.randint(1,9),dt); r1d=RunLengthArray.from_array(a)
        form=random.choice(['1d...','1d(i,)','1d...,i','1di,...','2d...','2d(r,)','2dr,...','2d...,j'])
        if form=='1d...': g,err=run(lambda: r1d[...].to_array()); exp=a
        elif form=='1d(i,)': i=random.randrange(len(a)); g,err=run(lambda: r1d[(i,)]); exp=a[i]
        elif form=='1d...,i': i=random.randrange(len(a)); g,err=run(lambda: r1d[...,i]); exp=a[i]
        elif form=='1di,...': i=random.randrange(len(a)); g,err=run(lambda: r1d[i,...]); exp=a[i]
        elif form=='2d...': g,err=run(lambda: torows(rl[...].to_array())); exp=rows
        elif form=='2d(r,)': i=random.randrange(nr); g,err=run(lambda: rl[(i,)].to_array()); exp=rows[i]
        elif form=='2dr,...': i=random.randrange(nr); g,err=run(lambda: rl[i,...].to_array()); exp=rows[i]
        else:
            mn=min(len(r) for r in rows); j=random.randrange(mn); g,err=run(lambda: np.asarray(rl[...,j])); exp=np.array([r[j] for r in rows])
        if err: buckets[(mode,form,err[:70])].append((rows if form.startswith('2d') else a,))
        elif form in('2d...',):
            if not rows_eq(g,exp): buckets[(mode,form,'value')].append((rows,g))
        elif not aeq(np.asarray(g),np.asarray(exp)): buckets[(mode,form,'value')].append((g,exp))
for k,v in sorted(buckets.items(), key=lambda kv:-len(kv[1])):
    v.sort(key=lambda t: len(str(t)))
    print(len(v),k,'  e.g.',str(v[0])[:330].replace('\n',' '))
