import numpy as np, collections, random, warnings, os, tempfile
warnings.simplefilter('ignore')
from npstructures import RaggedArray, RaggedShape, HashTable, Counter
from c14 import run
exec(open('c04.py').read().split("buckets = collections")[0])
random.seed(91); rng=np.random.default_rng(91)
buckets=collections.defaultdict(list)
DT=[np.bool_,np.int8,np.int16,np.int32,np.int64,np.uint8,np.uint16,np.uint32,np.uint64,np.float32,np.float64]
def data(n,dt):
    if dt in (np.uint16,np.uint32,np.uint64): return rng.integers(0,1000,n).astype(dt)
    return rand_data(n,dt)
N=int(os.environ.get('RECON_N',20000))
for it in range(N):
    lens=rand_lengths(); n=sum(lens); dt=random.choice(DT); a=data(n,dt); rows=split(a,lens)
    route=random.choice(['lists','nprows','flat','flatlist','flatshape','flattuple'])
    if route=='lists': ra,err=run(lambda: RaggedArray([r.tolist() for r in rows],dtype=dt))
    elif route=='nprows': ra,err=run(lambda: RaggedArray(rows) if rows else RaggedArray([],dtype=dt))
    elif route=='flat': ra,err=run(lambda: RaggedArray(a.copy(),list(lens)))
    elif route=='flatlist': ra,err=run(lambda: RaggedArray(a.tolist(),list(lens),dtype=dt))
    elif route=='flatshape': ra,err=run(lambda: RaggedArray(a.copy(),RaggedShape(lens)))
    else: ra,err=run(lambda: RaggedArray(a.copy(),(len(lens),np.array(lens,dtype=int))))
    if err: buckets[('ctor',route,err[:60], 'n0' if not lens else ('size0' if n==0 else ''))].append((lens,dt.__name__)); continue
    def chk(name,cond,info=None):
        if not cond: buckets[(name,route, 'n0' if not lens else ('size0' if n==0 else ''))].append((lens,dt.__name__,info))
    starts=np.concatenate([[0],np.cumsum(lens)[:-1]]).astype(int) if lens else np.zeros(0,int)
    chk('len',len(ra)==len(lens)); chk('size',ra.size==n); chk('lengths',list(ra.lengths)==lens); chk('shape0',ra.shape[0]==len(lens) and list(ra.shape[1])==lens)
    if n or route!='nprows': chk('dtype',ra.dtype==dt,(str(ra.dtype)))
    chk('tolist',ra.tolist()==[r.tolist() for r in rows] or any(np.isnan(x) for r in rows for x in np.asarray(r,dtype=float)), None)
    it_rows=list(ra); chk('iter',len(it_rows)==len(rows) and all(np.array_equal(x,y,equal_nan=True) for x,y in zip(it_rows,rows)))
    chk('ravel',np.array_equal(ra.ravel(),a,equal_nan=True))
    sh=ra._shape
    chk('starts',list(sh.starts)==list(starts)); chk('ends',list(sh.ends)==list(starts+np.array(lens,dtype=int)) if lens else True); chk('shsize',int(sh.size)==n); chk('nrows',sh.n_rows==len(lens))
    if n:
        ri=np.repeat(np.arange(len(lens)),lens); ci=np.concatenate([np.arange(l) for l in lens])
        chk('ravel_multi',list(sh.ravel_multi_index((ri,ci)))==list(range(n)))
        u=sh.unravel_multi_index(np.arange(n)); chk('unravel',list(u[0])==list(ri) and list(u[1])==list(ci),(list(u[0]),list(ri)))
        chk('index_array',list(sh.index_array())==list(ri),(list(sh.index_array()),list(ri)))
    t=random.choice(DT)
    g,err=run(lambda: ra.astype(t))
    if err: buckets[('astype',err[:60])].append((lens,dt.__name__,t.__name__))
    else: chk('astype',g.dtype==t and list(g.lengths)==lens and np.array_equal(g.ravel(),a.astype(t),equal_nan=True) and np.array_equal(ra.ravel(),a,equal_nan=True))
    d=tempfile.mkdtemp(); fn=os.path.join(d,'x.npz')
    g,err=run(lambda: (ra.save(fn), RaggedArray.load(fn))[1])
    if err: buckets[('saveload',err[:60])].append((lens,dt.__name__))
    else: chk('saveload',g.dtype==dt and list(g.lengths)==lens and np.array_equal(g.ravel(),a,equal_nan=True))
    try: os.remove(fn); os.rmdir(d)
    except Exception: pass
    if lens and len(set(lens))==1:
        g,err=run(lambda: ra.to_numpy_array())
        if err: buckets[('tonumpy',err[:60])].append((lens,dt.__name__))
        else: chk('tonumpy',g.shape==(len(lens),lens[0]) and g.dtype==dt and np.array_equal(g.reshape(-1),a,equal_nan=True))
    r_,c_=random.randint(0,4),random.randint(0,4); M=data(r_*c_,dt).reshape(r_,c_)
    g,err=run(lambda: RaggedArray.from_numpy_array(M))
    if err: buckets[('fromnumpy',err[:60],(r_==0,c_==0))].append((M.shape,dt.__name__))
    else:
        if not (len(g)==r_ and list(g.lengths)==[c_]*r_ and (g.dtype==dt) and np.array_equal(g.ravel(),M.reshape(-1),equal_nan=True)): buckets[('fromnumpy','value',(r_==0,c_==0))].append((M.shape,dt.__name__,len(g),list(g.lengths)))
    # mismatch
    k=random.choice([-2,-1,1,2,5]); m=max(n+k,0)
    if m!=n:
        g,err=run(lambda: RaggedArray(data(m,dt),list(lens)))
        if not err: buckets[('mismatch accepted', 'n0' if not lens else '', 'short' if m<n else 'long')].append((lens,m))
    g,err=run(lambda: RaggedShape.from_dict(sh.to_dict()))
    if err or list(g.lengths)!=lens: buckets[('shape dict',str(err)[:50])].append((lens,))
    g,err=run(lambda: RaggedShape.from_dict({'offsets':np.concatenate([[0],np.cumsum(lens)]).astype(int)}))
    if err or list(g.lengths)!=lens: buckets[('shape offsets',str(err)[:50], 'n0' if not lens else '')].append((lens,))
for k,v in sorted(buckets.items(), key=lambda kv:-len(kv[1])):
    v.sort(key=lambda t: len(str(t)))
    print(len(v),k,'  e.g.',str(v[0])[:250])
