import numpy as np, collections, random, warnings, re
warnings.simplefilter('ignore')
from npstructures import RunLengthArray, RunLengthRaggedArray, RaggedArray
random.seed(37); rng=np.random.default_rng(37)
buckets = collections.defaultdict(list)
def run(f):
    try: return f(), None
    except Exception as e: return None, type(e).__name__+':'+re.sub(r'\d+','N',str(e)[:70])
dts=[np.bool_,np.int8,np.int16,np.int32,np.int64,np.uint8,np.uint16,np.uint32,np.uint64,np.float16,np.float32,np.float64]
def rand_arr(n=None, dt=None):
    dt=dt or random.choice(dts)
    n=n or random.choice([1,1,2,3,5,8,13,30])
    # run structured
    k=random.choice(['allsame','alldiff','runs'])
    if dt is np.bool_: pool=np.array([False,True])
    elif np.issubdtype(dt,np.integer):
        ii=np.iinfo(dt); pool=np.array([ii.min,ii.max,0,1,2,3,min(ii.max,100)],dtype=dt)
    else: pool=np.array([0.0,-0.0,1.5,-2.25,np.inf,-np.inf,np.nan,3.0],dtype=dt)
    if k=='allsame': a=np.repeat(rng.choice(pool,1),n)
    elif k=='alldiff': a=rng.choice(pool,n)
    else:
        vals=rng.choice(pool, n); lens=rng.integers(1,5,n); a=np.repeat(vals,lens)[:n]
    return a.astype(dt)
def canon(r, strict_vals=True):
    e=np.asarray(r._events); v=np.asarray(r._values)
    if e[0]!=0: return 'e0'
    if len(e)!=len(v)+1: return 'len'
    if np.any(np.diff(e)<=0): return 'emptyrun'
    if strict_vals and len(v)>1:
        same = (v[1:]==v[:-1])
        if np.any(same): return 'adjacent-equal'
    return None
def aeq(x,y): 
    x=np.asarray(x); y=np.asarray(y)
    return x.shape==y.shape and np.array_equal(x,y,equal_nan=x.dtype.kind=='f')
if __name__=='__main__':
  for it in range(int(__import__("os").environ.get("RECON_N", 40000))):
    a=rand_arr(); n=len(a)
    r,err=run(lambda: RunLengthArray.from_array(a))
    tag=(a.dtype.kind,)
    if err: buckets[('enc',err)+tag].append(a[:6]); continue
    c=canon(r)
    if c: buckets[('canon-enc',c)+tag].append((a[:8],r._events[:6],r._values[:6]))
    d,err=run(lambda: r.to_array())
    if err: buckets[('dec',err)+tag].append(a[:6]); continue
    if not aeq(d,a): buckets[('roundtrip','value')+tag].append((a[:8],d[:8]))
    elif d.dtype!=a.dtype: buckets[('roundtrip','dtype',str(a.dtype),str(d.dtype))].append(1)
    d2,err=run(lambda: np.asarray(r))
    if err: buckets[('asarray',err)+tag].append(a[:6])
    elif not aeq(d2,a) or d2.dtype!=a.dtype: buckets[('asarray','value')+tag].append((a[:8],d2[:8]))
    if len(r)!=n or r.size!=n or r.shape!=(n,) or r.dtype!=a.dtype: buckets[('meta',)+tag].append((n,len(r),r.size,r.shape,r.dtype))
  for k,v in sorted(buckets.items(), key=lambda kv:str(kv[0])):
    v.sort(key=lambda t: len(str(t)))
    print(len(v), k, '  e.g.', str(v[0])[:260].replace('\n',' '))
