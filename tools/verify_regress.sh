#!/bin/bash
# tools/verify_regress.sh [<pre-fix worktree>]  - every committed regression must FAIL on the pre-fix tree (ad057eb) and PASS on /repo.
# Run after any change to a harness body: a regression file whose meaning drifted would otherwise turn vacuous silently.
BASE="${1:-/tmp/base}"
[ -d "$BASE/npstructures" ] || git -C /repo worktree add -q --detach "$BASE" ad057eb || exit 2
cd "$(dirname "$0")/.." || exit 2
bad=0
for f in regress/*/*.json; do
  id=$(basename "$(dirname "$f")")
  VERIF_REPO="$BASE" ./check "$id" --replay "$f" >/dev/null 2>&1; rb=$?
  ./check "$id" --replay "$f" >/dev/null 2>&1; rc=$?
  if [ "$rb" != 1 ] || [ "$rc" != 0 ]; then echo "DRIFT $f: pre-fix exit=$rb (want 1) current exit=$rc (want 0)"; bad=1; fi
done
[ $bad = 0 ] && echo "all $(ls regress/*/*.json | wc -l) regressions fail on the pre-fix tree and pass on /repo"
exit $bad
