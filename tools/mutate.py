"""Sensitivity calibration (DESIGN.md section 8): single-site AST mutants of the functions the properties are anchored in.

usage: /venv/bin/python tools/mutate.py [--spec tools/mutate_spec.json] [--scale 0.2] [--jobs 16] [--only FILE[:FUNC]] [--max N] [--out FILE]

Every mutant lives in a scratch copy under /tmp/verif-mut/ (outside /repo and /verif) that is removed when the mutant is done.
A mutant that the pinned suite kills is discarded ("suite-killed"); the others are run against the quick checks of the
properties listed for the file (VERIF_REPO points the unchanged checks at the copy) until one reports a VIOLATION.
Not a registered check; writes only tools/mutation_results.json (or --out).
"""
import argparse
import ast
import collections
import hashlib
import json
import os
import shutil
import subprocess
import sys
from multiprocessing import Pool

HERE = os.path.dirname(os.path.dirname(os.path.abspath(__file__)))
BASE = os.path.realpath(os.environ.get("VERIF_REPO", "/repo"))
SCRATCH = "/tmp/verif-mut"

SWAP_BIN = {ast.Add: ast.Sub, ast.Sub: ast.Add, ast.Mult: ast.FloorDiv, ast.FloorDiv: ast.Mult, ast.BitAnd: ast.BitOr, ast.BitOr: ast.BitAnd,
            ast.BitXor: ast.BitAnd, ast.Mod: ast.FloorDiv, ast.LShift: ast.RShift, ast.RShift: ast.LShift, ast.Div: ast.Mult}
SWAP_CMP = {ast.Lt: [ast.LtE, ast.Gt], ast.LtE: [ast.Lt, ast.GtE], ast.Gt: [ast.GtE, ast.Lt], ast.GtE: [ast.Gt, ast.LtE], ast.Eq: [ast.NotEq],
            ast.NotEq: [ast.Eq], ast.Is: [ast.IsNot], ast.IsNot: [ast.Is]}
NAME_SWAP = {'minimum': 'maximum', 'maximum': 'minimum', 'starts': 'ends', 'ends': 'starts', 'cumsum': 'cumprod', 'left': 'right', 'right': 'left',
             'any': 'all', 'all': 'any', 'zeros': 'ones', 'ones': 'zeros', 'zeros_like': 'ones_like', 'ones_like': 'zeros_like', 'argsort': 'sort'}


def sites(fn):
    out = []
    for node in ast.walk(fn):
        if isinstance(node, ast.BinOp) and type(node.op) in SWAP_BIN:
            out.append(('bin', node, None))
        if isinstance(node, ast.AugAssign) and type(node.op) in SWAP_BIN:
            out.append(('aug', node, None))
        if isinstance(node, ast.Compare):
            for k, op in enumerate(node.ops):
                for alt in SWAP_CMP.get(type(op), []):
                    out.append(('cmp', node, (k, alt)))
        if isinstance(node, ast.BoolOp):
            out.append(('bool', node, None))
        if isinstance(node, ast.UnaryOp) and isinstance(node.op, (ast.Not, ast.USub, ast.Invert)):
            out.append(('unary', node, None))
        if isinstance(node, ast.Constant):
            if isinstance(node.value, bool):
                out.append(('const', node, not node.value))
            elif isinstance(node.value, int) and abs(node.value) <= 64:
                out.append(('const', node, node.value + 1))
                out.append(('const', node, node.value - 1))
            elif isinstance(node.value, str) and node.value in NAME_SWAP:
                out.append(('const', node, NAME_SWAP[node.value]))
        if isinstance(node, ast.Attribute) and node.attr in NAME_SWAP:
            out.append(('attr', node, NAME_SWAP[node.attr]))
        if isinstance(node, (ast.Assign, ast.AugAssign, ast.Expr)) and not (isinstance(node, ast.Expr) and isinstance(node.value, ast.Constant)):
            out.append(('del', node, None))
        if isinstance(node, ast.Slice):
            for f in ('lower', 'upper', 'step'):
                if getattr(node, f) is not None:
                    out.append(('slicedrop', node, f))
        if isinstance(node, ast.If):
            out.append(('ifneg', node, None))
    return out


def find_fn(tree, qual):
    body = tree.body
    node = None
    for p in qual.split('.'):
        node = None
        for n in body:
            if isinstance(n, (ast.FunctionDef, ast.ClassDef)) and n.name == p:
                node = n
        if node is None:
            raise KeyError(qual)
        body = node.body
    return node


def make_mutants(path, qual):
    src = open(path).read()
    fn = find_fn(ast.parse(src), qual)
    res = []
    for i in range(len(sites(fn))):
        t = ast.parse(src)
        f = find_fn(t, qual)
        kind, node, arg = sites(f)[i]
        desc = f"{kind}@L{getattr(node, 'lineno', '?')}"
        if kind in ('bin', 'aug'):
            node.op = SWAP_BIN[type(node.op)]()
            desc += ':' + type(node.op).__name__
        elif kind == 'cmp':
            node.ops[arg[0]] = arg[1]()
            desc += ':' + arg[1].__name__
        elif kind == 'bool':
            node.op = ast.Or() if isinstance(node.op, ast.And) else ast.And()
        elif kind == 'unary':
            if isinstance(node.op, ast.Not):
                node.operand = ast.UnaryOp(op=ast.Not(), operand=node.operand)
            else:
                node.op = ast.UAdd()
        elif kind == 'const':
            node.value = arg
            desc += ':' + repr(arg)
        elif kind == 'attr':
            node.attr = arg
            desc += ':' + arg
        elif kind == 'del':
            new = ast.Pass()
            for parent in ast.walk(f):
                for field, val in ast.iter_fields(parent):
                    if isinstance(val, list) and node in val:
                        val[val.index(node)] = new
        elif kind == 'slicedrop':
            setattr(node, arg, None)
            desc += ':' + arg
        elif kind == 'ifneg':
            node.test = ast.UnaryOp(op=ast.Not(), operand=node.test)
        ast.fix_missing_locations(t)
        try:
            code = ast.unparse(t)
        except Exception:
            continue
        res.append((desc, code))
    return res


def run_one(job):
    relpath, qual, idx, desc, code, killers, scale = job
    mid = hashlib.md5((relpath + qual + str(idx)).encode()).hexdigest()[:10]
    d = f'{SCRATCH}/{mid}'
    shutil.rmtree(d, ignore_errors=True)
    os.makedirs(d)
    try:
        ig = shutil.ignore_patterns('__pycache__')
        shutil.copytree(BASE + '/npstructures', d + '/npstructures', ignore=ig)
        shutil.copytree(BASE + '/tests', d + '/tests', ignore=ig)
        for f in ('conftest.py', 'setup.cfg'):
            if os.path.exists(BASE + '/' + f):
                shutil.copy(BASE + '/' + f, d)
        open(d + '/npstructures/' + relpath, 'w').write(code)
        env = dict(os.environ, PYTHONDONTWRITEBYTECODE='1', PYTHONPATH=d)
        try:
            r = subprocess.run(['/venv/bin/python', '-m', 'pytest', '-q', '-x', '-p', 'no:cacheprovider', '--timeout=120', 'tests'], cwd=d, env=env,
                               capture_output=True, text=True, timeout=400)
            suite_ok = r.returncode == 0
        except subprocess.TimeoutExpired:
            suite_ok = False
        if not suite_ok:
            return (relpath, qual, idx, desc, 'suite-killed', None)
        env2 = dict(os.environ, VERIF_REPO=d, VERIF_JOBS='2', VERIF_SCALE=str(scale), VERIF_NO_EVIDENCE='1', VERIF_SEED='1')
        env2.pop('PYTHONPATH', None)
        for k in killers:
            try:
                r = subprocess.run([HERE + '/check', k, 'quick'], cwd=HERE, env=env2, capture_output=True, text=True, timeout=1500)
                rc = r.returncode
            except subprocess.TimeoutExpired:
                rc = 1   # a mutant that makes the library hang counts as detected (reported separately)
                return (relpath, qual, idx, desc, 'killed-timeout', k)
            if rc == 1:
                return (relpath, qual, idx, desc, 'killed', k)
            if rc != 0:
                return (relpath, qual, idx, desc, 'killed-harness-error', k + ':' + (r.stdout + r.stderr)[-300:])
        return (relpath, qual, idx, desc, 'SURVIVED', None)
    finally:
        shutil.rmtree(d, ignore_errors=True)


def main():
    ap = argparse.ArgumentParser()
    ap.add_argument('--spec', default=HERE + '/tools/mutate_spec.json')
    ap.add_argument('--scale', type=float, default=0.2)
    ap.add_argument('--jobs', type=int, default=8)
    ap.add_argument('--only', default=None)
    ap.add_argument('--max', type=int, default=0)
    ap.add_argument('--stride', type=int, default=1, help='take every n-th mutant')
    ap.add_argument('--out', default=HERE + '/tools/mutation_results.json')
    ap.add_argument('--rerun', default=None, help='results file of an earlier run: only its SURVIVED / killed-harness-error mutants are run again')
    a = ap.parse_args()
    spec = json.load(open(a.spec))
    jobs = []
    for relpath, quals, killers in spec:
        for q in quals:
            if a.only and not (a.only == relpath or a.only == relpath + ':' + q):
                continue
            try:
                ms = make_mutants(BASE + '/npstructures/' + relpath, q)
            except KeyError:
                print('missing', relpath, q, file=sys.stderr)
                continue
            for i, (desc, code) in enumerate(ms):
                jobs.append((relpath, q, i, desc, code, killers, a.scale))
    if a.rerun:
        keep = {(r[0], r[1], r[2]) for r in json.load(open(a.rerun)) if r[4] in ('SURVIVED', 'killed-harness-error')}
        jobs = [j for j in jobs if (j[0], j[1], j[2]) in keep]
    jobs = jobs[::a.stride]
    if a.max:
        jobs = jobs[:a.max]
    print('mutants', len(jobs), file=sys.stderr)
    os.makedirs(SCRATCH, exist_ok=True)
    with Pool(a.jobs) as p:
        res = []
        for k, r in enumerate(p.imap_unordered(run_one, jobs, chunksize=1)):
            res.append(r)
            if k % 25 == 0:
                print(k, collections.Counter(x[4] for x in res), file=sys.stderr, flush=True)
    shutil.rmtree(SCRATCH, ignore_errors=True)
    agg = collections.defaultdict(collections.Counter)
    for r in res:
        agg[r[0]][r[4]] += 1
    for k, v in sorted(agg.items()):
        print(k, dict(v))
    for r in sorted(res):
        if r[4] not in ('suite-killed', 'killed'):
            print(r[4], r[:4], r[5] if r[4] != 'SURVIVED' else '')
    json.dump(sorted(res), open(a.out, 'w'), indent=0)


if __name__ == '__main__':
    main()
