#!/bin/bash
# run the pinned suite in /repo (or $1) with the guard off; exit 0 only if exactly the baseline result (140 passed, 1 known failure)
cd "${1:-/repo}" || exit 2
out=$(env -u NPSTRUCTURES_VERIF PYTHONDONTWRITEBYTECODE=1 /venv/bin/python -m pytest -q -p no:cacheprovider --timeout=900 --continue-on-collection-errors 2>&1 | tail -3)
echo "$out" | tail -2
echo "$out" | grep -q "1 failed, 140 passed\|141 passed" || { echo "SUITE NOT AT BASELINE"; exit 1; }
