#!/bin/bash
# run the pinned suite in /repo (or $1) with the guard off; print the summary line
cd "${1:-/repo}" && env -u NPSTRUCTURES_VERIF PYTHONDONTWRITEBYTECODE=1 /venv/bin/python -m pytest -q -p no:cacheprovider --timeout=900 --continue-on-collection-errors 2>&1 | tail -4
