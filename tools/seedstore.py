"""tools/seedstore.py <ID> <n> <result-line> <caught-by> [<note>]  - copies /tmp/seedout/<ID>/{patch,demo,notes}<n> into seeded/<ID>-<n>/ with meta.json"""
import json, os, shutil, sys
HERE = os.path.dirname(os.path.dirname(os.path.abspath(__file__)))
pid, n, result, caught_by = sys.argv[1:5]
note = sys.argv[5] if len(sys.argv) > 5 else ""
src = f"/tmp/seedout/{pid}"
dst = f"{HERE}/seeded/{pid}-{n}"
os.makedirs(dst, exist_ok=True)
shutil.copy(f"{src}/patch{n}.diff", f"{dst}/patch.diff")
shutil.copy(f"{src}/demo{n}.py", f"{dst}/demo.py")
notes = open(f"{src}/notes{n}.md").read() if os.path.exists(f"{src}/notes{n}.md") else ""
open(f"{dst}/notes.md", "w").write(notes)
meta = {
    "property": pid,
    "origin": "independent sub-agent given only the property text and a scratch worktree of /repo (nothing from /verif)",
    "what_it_breaks_and_needs": notes.strip()[:1500],
    "confirmed_by": "tools/seedtest.sh: patch applies to /repo HEAD in a scratch worktree; pinned suite there: 141 passed; demo.py exits 0 "
                    "without and non-zero with the change; then ./check %s quick with VERIF_REPO pointing at the patched worktree" % pid,
    "result": result,
    "caught_by": caught_by,
    "strengthening": note,
}
json.dump(meta, open(f"{dst}/meta.json", "w"), indent=1)
print("stored", dst)
