"""tools/seedstore11.py <ID> <result-line> <caught-by> [<note>]  - round-12 seeds: /tmp/seedout12/<ID>/{patch,demo,notes}1 -> seeded/<ID>-12/"""
import json, os, shutil, sys
HERE = os.path.dirname(os.path.dirname(os.path.abspath(__file__)))
pid, result, caught_by = sys.argv[1:4]
note = sys.argv[4] if len(sys.argv) > 4 else ""
src = f"/tmp/seedout12/{pid}"
dst = f"{HERE}/seeded/{pid}-12"
os.makedirs(dst, exist_ok=True)
shutil.copy(f"{src}/patch1.diff", f"{dst}/patch.diff")
shutil.copy(f"{src}/demo1.py", f"{dst}/demo.py")
notes = open(f"{src}/notes1.md").read() if os.path.exists(f"{src}/notes1.md") else ""
open(f"{dst}/notes.md", "w").write(notes)
meta = {
    "property": pid,
    "origin": "twelfth round (8 properties: C02 C05 C07 C09 C11 C13 C14 C15): independent sub-agent given only the property text and a "
              "scratch worktree of /repo (nothing from /verif, no notes of earlier changes); asked for one plausible maintainer slip that needs something "
              "specific to manifest, 10-minute budget",
    "what_it_breaks_and_needs": notes.strip()[:1800],
    "confirmed_by": "tools/seedtest.sh: patch applies to /repo HEAD in a scratch worktree; pinned suite there: 141 passed; demo.py exits 0 "
                    "without and non-zero with the change; then ./check %s quick with VERIF_REPO pointing at the patched worktree" % pid,
    "result": result, "caught_by": caught_by, "strengthening": note,
}
json.dump(meta, open(f"{dst}/meta.json", "w"), indent=1)
print("stored", dst)
