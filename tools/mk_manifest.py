"""Regenerates /verif/MANIFEST.json from the property modules that exist (run with python3)."""
import json
import os

HERE = os.path.dirname(os.path.dirname(os.path.abspath(__file__)))

TECH = {
    "C01": "Hypothesis generated inputs vs. the generating rows (round-trip / reference-model oracle)",
    "C02": "Hypothesis generated index expressions vs. list-of-rows reference model; exhaustive small-scope enumeration in thorough",
    "C03": "Hypothesis generated assignments vs. coordinate-labelled list-of-rows reference model; small-scope enumeration in thorough",
    "C04": "Hypothesis generated operands vs. numpy on the flat buffers (differential oracle)",
    "C05": "Hypothesis generated arrays vs. numpy per-row reductions (differential oracle)",
    "C06": "Hypothesis generated straight-line programs, lazy world vs. freshly-rebuilt world (differential oracle) plus model-based view chains",
    "C07": "Hypothesis generated arrays vs. numpy applied to each row (differential oracle)",
    "C08": "Hypothesis generated operands vs. per-row reference implementations (reference-model oracle)",
    "C09": "Hypothesis generated arrays vs. explicit column lists (reference-model oracle)",
    "C10": "Hypothesis generated histories with inserted read-only operations (metamorphic oracle)",
    "C11": "Hypothesis rule-based state machine vs. dict model",
    "C12": "Hypothesis rule-based state machine vs. collections.Counter model plus metamorphic relations",
    "C13": "Hypothesis generated inputs vs. unpacked-list model; exhaustive small-scope enumeration in thorough",
    "C14": "Hypothesis generated arrays: round-trip oracle and canonical-form validity predicate",
    "C15": "Hypothesis generated indices vs. dense numpy indexing; exhaustive small-scope enumeration in thorough",
    "C16": "Hypothesis generated operand pairs vs. numpy on the decoded arrays (differential oracle)",
    "C17": "Hypothesis generated matrices / ragged arrays vs. numpy on the dense data (differential oracle)",
    "C18": "Hypothesis generated dataclasses vs. tuple-of-field-arrays model",
    "C19": "Hypothesis generated cases evaluated under both index-width configurations (differential oracle)",
}

LEVEL_TEXT = ("Generated-input search (property-based testing) against an explicit oracle: bounded exploration of the "
              "property's input space with measured class coverage; finds counterexamples and shrinks them, "
              "does not prove absence. Appropriate because the property is a for-all over inputs/programs/histories "
              "with an executable reference model.")
NOTE = ("Trusts numpy, Python list/slice/dict semantics and the ~model code in vlib/oracle.py; sizes bounded as stated in "
        "DESIGN.md section 5 for this property.")


def main():
    props = [json.loads(l) for l in open(os.path.join(HERE, "properties.jsonl"))]
    checks, na = [], []
    for p in props:
        pid = p["id"]
        if os.path.exists(os.path.join(HERE, "vlib", "props", pid.lower() + ".py")):
            checks.append({
                "property_id": pid,
                "quick_cmd": f"./check {pid} quick",
                "thorough_cmd": f"./check {pid} thorough",
                "evidence_file": f"evidence/{pid}.json",
                "replay_cmd_template": f"./check {pid} --replay {{path}}",
                "engine": "hypothesis-runner",
                "level_claimed": {"category": "exploration", "text": LEVEL_TEXT, "design_ref": f"DESIGN.md section 5 ({pid})"},
                "level_note": NOTE,
                "technique": TECH[pid],
            })
        else:
            na.append({"property_id": pid, "reason": "no check registered yet: the property-based check for this property is still being built (see DESIGN.md section 5 for its design)"})
    man = {
        "version": 1,
        "setup_cmd": "(/venv/bin/python -c 'import hypothesis' 2>/dev/null || /venv/bin/pip install --no-index --find-links /opt/veriftools/wheels hypothesis) && "
                     "(PYTHONPATH=.deps /venv/bin/python -c 'import atheris' 2>/dev/null || /venv/bin/pip install -q --no-index --find-links /opt/veriftools/wheels --target .deps atheris || "
                     "echo 'atheris not installed: the two coverage-guided sub-checks of the thorough tier will be skipped')",
        "hooks": {
            "guard": "NPSTRUCTURES_VERIF",
            "enable": "no source hooks exist; checks import /repo's working tree directly (PYTHONPATH=/repo), the guard variable is exported by ./check but nothing in the repository reads it",
            "baseline_off_cmd": "cd /repo && /venv/bin/python -m pytest -ra -q -p no:cacheprovider --timeout=900 --continue-on-collection-errors",
            "source_commits": [],
            "add_only": True,
        },
        "engines": [{
            "name": "hypothesis-runner",
            "path": "vlib/run.py",
            "serves_properties": [c["property_id"] for c in checks],
            "kind_free_text": "Hypothesis 6.168 strategies and rule-based state machines driven by a process-pool runner "
                              "(seeded by VERIF_SEED), exhaustive small-scope enumerators, committed regression replay tier; "
                              "thorough tier of C06/C10 adds atheris (libFuzzer) campaigns through Hypothesis' fuzz_one_input",
        }],
        "checks": checks,
        "not_applicable": na,
        "notes": "All checks: ./check <ID> quick|thorough; replay: ./check <ID> --replay <file>. Known findings: KNOWN_FINDINGS.txt.",
    }
    with open(os.path.join(HERE, "MANIFEST.json"), "w") as f:
        json.dump(man, f, indent=1)
        f.write("\n")


if __name__ == "__main__":
    main()
