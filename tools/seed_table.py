"""prints the markdown table of seeded changes from seeded/*/meta.json (pasted into DESIGN.md section 8)"""
import glob, json, os, re
HERE = os.path.dirname(os.path.dirname(os.path.abspath(__file__)))
print("| seeded change | what it needs to manifest (from the author's notes) | first run | caught by (now) | strengthening |")
print("|---|---|---|---|---|")
for d in sorted(glob.glob(HERE + "/seeded/*/")):
    m = json.load(open(d + "meta.json"))
    notes = m["what_it_breaks_and_needs"]
    need = ""
    for line in notes.splitlines():
        if re.search(r"(?i)need|manifest|trigger|conjunction", line) and len(line) > 20:
            need = line.strip("-* #").strip()
            break
    if not need:
        need = notes.splitlines()[0].strip("# ") if notes else ""
    need = need.replace("|", "/")[:230]
    first = "missed" if "first run: missed" in m["result"] else "caught"
    print(f"| {os.path.basename(d.rstrip('/'))} | {need} | {first} | {m['caught_by'].replace('|','/')} | {m['strengthening'].replace('|','/') or '—'} |")
