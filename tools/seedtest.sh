#!/bin/bash
# tools/seedtest.sh <property ID> <patch.diff> [<demo.py>] [tier] [extra check IDs...]
# Confirms a seeded change in a scratch worktree of /repo (outside /repo and /verif):
#   1. the patch applies to /repo's HEAD, 2. the pinned suite still passes with it,
#   3. the demonstration fails with it and passes without it, 4. runs the property's check against the patched tree.
# The worktree is removed afterwards.  Prints one summary line:  SEED <ID> <patch> suite=<ok|FAIL> demo=<ok|BAD> check=<CAUGHT|missed|error>
ID="$1"; PATCH="$(realpath "$2")"; DEMO="${3:+$(realpath "$3")}"; TIER="${4:-quick}"
WT="$(mktemp -d /tmp/seedwt.XXXXXX)"; rmdir "$WT"; XIDS="${@:5}"
git -C /repo worktree add -q --detach "$WT" HEAD || exit 2
cleanup() { git -C /repo worktree remove --force "$WT" 2>/dev/null; rm -rf "$WT"; }
trap cleanup EXIT
demo_clean=skip
if [ -n "$DEMO" ]; then ( cd "$WT" && PYTHONPATH="$WT" PYTHONDONTWRITEBYTECODE=1 /venv/bin/python "$DEMO" >/dev/null 2>&1 ); demo_clean=$?; fi
git -C "$WT" apply "$PATCH" || { echo "SEED $ID $(basename "$PATCH") patch-does-not-apply"; exit 2; }
suite=$(cd "$WT" && PYTHONPATH="$WT" PYTHONDONTWRITEBYTECODE=1 /venv/bin/python -m pytest -q -p no:cacheprovider --timeout=900 tests 2>&1 | tail -1)
echo "$suite" | grep -q "141 passed" && s=ok || s="FAIL($suite)"
demo_bug=skip
if [ -n "$DEMO" ]; then ( cd "$WT" && PYTHONPATH="$WT" PYTHONDONTWRITEBYTECODE=1 /venv/bin/python "$DEMO" >/dev/null 2>&1 ); demo_bug=$?; fi
if [ "$demo_clean" = 0 ] && [ "$demo_bug" != 0 ] && [ "$demo_bug" != skip ]; then d=ok; else d="BAD(clean=$demo_clean,bug=$demo_bug)"; fi
out=$(cd /verif && VERIF_REPO="$WT" VERIF_NO_EVIDENCE=1 ./check "$ID" "$TIER" 2>&1); rc=$?
case $rc in 0) c=missed;; 1) c=CAUGHT;; *) c="error($rc)";; esac
echo "SEED $ID $(basename "$PATCH") suite=$s demo=$d check=$c"
echo "$out" | grep "^violation in\|^regression\|HARNESS" | cut -c1-400 | head -5
