"""tools/seedstore11.py <ID> <result-line> <caught-by> [<note>]  - round-13 seeds: /tmp/seedout13/<ID>/{patch,demo,notes}1 -> seeded/<ID>-13/"""
import json, os, shutil, sys
HERE = os.path.dirname(os.path.dirname(os.path.abspath(__file__)))
pid, result, caught_by = sys.argv[1:4]
note = sys.argv[4] if len(sys.argv) > 4 else ""
src = f"/tmp/seedout13/{pid}"
dst = f"{HERE}/seeded/{pid}-13"
os.makedirs(dst, exist_ok=True)
shutil.copy(f"{src}/patch1.diff", f"{dst}/patch.diff")
shutil.copy(f"{src}/demo1.py", f"{dst}/demo.py")
notes = open(f"{src}/notes1.md").read() if os.path.exists(f"{src}/notes1.md") else ""
open(f"{dst}/notes.md", "w").write(notes)
meta = {
    "property": pid,
    "origin": "thirteenth round (the other 11 properties: C01 C03 C04 C06 C08 C10 C12 C16 C17 C18 C19): independent sub-agent given only the property text and a "
              "scratch worktree of /repo (nothing from /verif, no notes of earlier changes); asked for one plausible maintainer slip that needs something "
              "specific to manifest, 8-minute budget",
    "what_it_breaks_and_needs": notes.strip()[:1800],
    "confirmed_by": "tools/seedtest.sh: patch applies to /repo HEAD in a scratch worktree; pinned suite there: 141 passed; demo.py exits 0 "
                    "without and non-zero with the change; then ./check %s quick with VERIF_REPO pointing at the patched worktree" % pid,
    "result": result, "caught_by": caught_by, "strengthening": note,
}
json.dump(meta, open(f"{dst}/meta.json", "w"), indent=1)
print("stored", dst)
