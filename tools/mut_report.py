"""tools/mut_report.py <results.json> [--diffs]  - summary table per file and, with --diffs, the changed line of every survivor"""
import ast, collections, difflib, json, os, sys
sys.path.insert(0, os.path.dirname(os.path.abspath(__file__)))
import mutate

res = json.load(open(sys.argv[1]))
agg = collections.defaultdict(collections.Counter)
for r in res:
    agg[r[0]][r[4]] += 1
print("| file | mutants | killed by pinned suite | pass the suite | killed by the checks | survive |")
print("|---|---|---|---|---|---|")
tot = collections.Counter()
for f, c in sorted(agg.items()):
    n = sum(c.values()); sk = c["suite-killed"]; k = c["killed"] + c["killed-harness-error"] + c["killed-timeout"]; s = c["SURVIVED"]
    tot.update(dict(n=n, sk=sk, k=k, s=s))
    print(f"| {f} | {n} | {sk} | {n - sk} | {k} | {s} |")
print(f"| **total** | {tot['n']} | {tot['sk']} | {tot['n'] - tot['sk']} | {tot['k']} | {tot['s']} |")
if "--diffs" in sys.argv:
    cache = {}
    for r in sorted(res):
        if r[4] != "SURVIVED":
            continue
        rel, qual, idx, desc = r[:4]
        path = mutate.BASE + "/npstructures/" + rel
        key = (rel, qual)
        if key not in cache:
            cache[key] = mutate.make_mutants(path, qual)
        src = ast.unparse(ast.parse(open(path).read())).splitlines()
        d, code = cache[key][idx]
        diff = [l for l in difflib.unified_diff(src, code.splitlines(), lineterm="", n=0) if l[:1] in "+-" and l[:3] not in ("+++", "---")]
        print(f"\n{rel}:{qual} #{idx} {desc}")
        for l in diff[:6]:
            print("    " + l[:220])
