"""Shared Hypothesis strategies (DESIGN.md section 3).  Everything produced is JSON data."""
import functools

from hypothesis import strategies as st

_cache = functools.lru_cache(maxsize=None)   # strategies are built once per argument tuple: construction + validation dominate otherwise

INT_DT = ["int8", "int16", "int32", "int64", "uint8", "uint16", "uint32", "uint64"]
FLOAT_DT = ["float32", "float64"]
ALL_DT = ["bool"] + INT_DT + FLOAT_DT
# dtype pairs named by C04
C04_DT = ["bool", "int8", "int16", "int32", "int64", "uint8", "float32", "float64", "uint64", "uint16", "uint32"]

_INFO = {
    "int8": (-2**7, 2**7 - 1), "int16": (-2**15, 2**15 - 1), "int32": (-2**31, 2**31 - 1),
    "int64": (-2**63, 2**63 - 1), "uint8": (0, 2**8 - 1), "uint16": (0, 2**16 - 1),
    "uint32": (0, 2**32 - 1), "uint64": (0, 2**64 - 1),
}


def int_range(dt):
    return _INFO[dt]


def tier_sizes(tier):
    if tier == "thorough":
        return dict(max_rows=12, max_len=9, long_rows=40, long_len=70)
    return dict(max_rows=6, max_len=5, long_rows=12, long_len=20)


@_cache
def _rowlen(max_len, min_len=0):
    small = [l for l in (0, 0, 0, 1, 1, 2, 2, 3, 4, 5) if min_len <= l <= max_len] or [min_len]
    return st.one_of(st.sampled_from(small), st.integers(min_len, max_len))


@_cache
def lengths(tier, min_rows=0, min_len=0, max_rows=None, max_len=None):
    """Row-length vectors with every empty-row placement class at double-digit probability."""
    sz = tier_sizes(tier)
    R = max_rows or sz["max_rows"]
    L = max_len or sz["max_len"]
    rl = _rowlen(L, min_len)
    pos = _rowlen(L, max(1, min_len))
    if min_len > 0:
        alts = [st.lists(rl, min_size=max(min_rows, 1), max_size=R),
                st.lists(rl, min_size=max(min_rows, 1), max_size=2)]
        if min_rows == 0:
            alts.append(st.just([]))
        long_ = st.lists(st.integers(min_len, sz["long_len"]), min_size=max(min_rows, 1), max_size=sz["long_rows"])
        return st.one_of(*alts, *alts, *alts, long_)
    m1 = max(min_rows, 1)
    alts = [
        st.lists(rl, min_size=min_rows, max_size=R),                                   # unconstrained
        st.lists(rl, min_size=m1, max_size=2),                                         # 1-2 rows
        st.integers(m1, 5).map(lambda k: [0] * k),                                     # only empty rows
        st.tuples(st.integers(1, 3), st.lists(pos, min_size=1, max_size=R - 1)).map(lambda t: [0] * t[0] + t[1]),   # leading
        st.tuples(st.lists(pos, min_size=1, max_size=R - 1), st.integers(1, 3)).map(lambda t: t[0] + [0] * t[1]),   # trailing
        st.tuples(st.lists(rl, min_size=1, max_size=3), st.integers(2, 3), st.lists(rl, min_size=1, max_size=3)).map(
            lambda t: t[0] + [0] * t[1] + t[2]),                                       # consecutive inside
        st.lists(pos, min_size=m1, max_size=R),                                        # no empty row
    ]
    if min_rows == 0:
        alts.append(st.just([]))

    def near_rect(t):
        # a rectangular shape with cells moved between rows: same first/last length or same total as a rectangle
        n, L, moves = t
        lens = [L] * n
        for (i, j) in moves:
            i, j = i % n, j % n
            if lens[i] > 0 and i != j:
                lens[i] -= 1
                lens[j] += 1
        return lens
    alts.append(st.tuples(st.integers(max(m1, 2), max(R, 3)), st.integers(0, min(L, 4)),
                          st.lists(st.tuples(st.integers(0, 9), st.integers(0, 9)), max_size=3)).map(near_rect))
    long_ = st.lists(st.one_of(st.integers(0, 3), st.integers(0, sz["long_len"])), min_size=m1, max_size=sz["long_rows"])
    return st.one_of(*alts, long_)


def shape_labels(lens):
    out = []
    n = len(lens)
    if n == 0:
        return ["zero-rows"]
    if all(l == 0 for l in lens):
        out.append("all-empty")
    else:
        if lens[0] == 0:
            out.append("leading-empty")
        if lens[-1] == 0:
            out.append("trailing-empty")
        if any(a == 0 and b == 0 for a, b in zip(lens, lens[1:])):
            out.append("consecutive-empty")
        if 0 in lens[1:-1]:
            out.append("inner-empty")
        if 0 not in lens:
            out.append("none-empty")
    if n == 1:
        out.append("single-row")
    if max(lens) > 128:
        out.append("row>128")
    elif max(lens) > 8:
        out.append("long-row")
    return out


def has_mixed_empty(lens):
    return len(lens) >= 2 and 0 in lens and any(l > 0 for l in lens)


# ---------------------------------------------------------------- contents

@_cache
def int_elem(dt, mag=None):
    lo, hi = _INFO[dt]
    if mag is not None:
        lo, hi = max(lo, -mag), min(hi, mag)
    notable = sorted({v for v in (lo, hi, 0, 1, -1, 2, 3, lo + 1, hi - 1, 7, -7, 100, -100, hi // 2, lo // 2, hi // 2 + 1, 2**53, 2**53 + 1, -2**53 - 1) if lo <= v <= hi})
    return st.one_of(st.sampled_from(notable), st.integers(max(lo, -9), min(hi, 9)), st.integers(lo, hi))


@_cache
def float_elem(dt, specials=True, mag=256):
    dy = st.integers(-4 * mag, 4 * mag).map(lambda k: k / 4.0)
    small = st.integers(-8, 8).map(float)
    if not specials:
        return st.one_of(small, dy)
    sp = st.sampled_from([0.0, -0.0, float("inf"), float("-inf"), float("nan"), 1.0, -1.0])
    return st.one_of(small, dy, sp)


WIDE32 = [0.1, 3e38, -3e38, 1e-38, 1 / 3, 16777217.0, 1e10, 1e19]
WIDE64 = [0.1, 1e300, -1e300, 1e-300, 1 / 3, 9007199254740993.0, 1e10, 1e19, 1.2e19]


@_cache
def elem(dt, specials=True, mag=None, wide=False):
    if dt == "bool":
        return st.booleans()
    if dt in _INFO:
        return int_elem(dt, mag)
    if wide:   # only for sub-checks whose oracle involves no re-ordered arithmetic: any float is as good as any other
        return st.one_of(float_elem(dt, specials, 256), st.sampled_from(WIDE32 if dt == "float32" else WIDE64))
    return float_elem(dt, specials, min(mag or 256, 256))   # exactly representable sums in float32 whatever the order of summation


@_cache
def flat_values(dt, n, specials=True, mag=None, dup=False, wide=False):
    e = elem(dt, specials, mag, wide)
    if dt in FLOAT_DT and specials and not dup and n > 0:
        # now and then nothing but zeros of both signs (they compare equal and behave differently under 1/x, copysign, arctan2)
        zeros = st.lists(st.sampled_from([0.0, -0.0]), min_size=n, max_size=n)
        return st.one_of(*([st.lists(e, min_size=n, max_size=n)] * 9), zeros)
    if dup:
        # few distinct values -> duplicates and runs
        return st.tuples(st.lists(e, min_size=3, max_size=3), st.lists(st.integers(0, 2), min_size=n, max_size=n)).map(
            lambda t: [t[0][i] for i in t[1]])
    return st.lists(e, min_size=n, max_size=n)


@st.composite
def ragged(draw, tier, dts=ALL_DT, min_rows=0, min_len=0, specials=True, mag=None, dup=None, max_rows=None, max_len=None, wide=False):
    """{'lens': [...], 'dt': str, 'vals': flat list}"""
    lens = draw(lengths(tier, min_rows=min_rows, min_len=min_len, max_rows=max_rows, max_len=max_len))
    dt = draw(st.sampled_from(dts))
    if dup is None:
        d = draw(st.integers(0, 3)) == 0
    else:
        d = dup
    vals = draw(flat_values(dt, sum(lens), specials=specials, mag=mag, dup=d, wide=wide))
    return {"lens": lens, "dt": dt, "vals": vals}


# ---------------------------------------------------------------- index grammar

@_cache
def bound(n, extra=3):
    return st.one_of(st.none(), st.integers(-n - extra, n + extra))


@_cache
def step_st(n):
    return st.sampled_from(sorted({1, -1, 2, -2, 3, -3, max(n, 1), -max(n, 1), n + 2, -(n + 2)}) + [None, None, 1, -1])


@_cache
def slice_st(n):
    return st.tuples(bound(n), bound(n), step_st(n)).map(lambda t: ["s", t[0], t[1], t[2]])


INT_INDEX_DT = ["int64", "int32", "int16", "int8", "uint8", "uint32", "intp"]


@_cache
def rowsel(n, norepeat=False, allow_bad_int=True):
    """Row selector for an array of n rows."""
    alts = []
    lo, hi = (-n - 2, n + 1) if allow_bad_int else (-n, n - 1)
    if allow_bad_int or n > 0:
        alts.append(st.tuples(st.integers(lo, hi), st.sampled_from([False, False, True, True, 2])).map(lambda t: ["i", t[0], t[1]]))   # Python int, np.int64, 0-d array
    alts.append(slice_st(n))
    alts.append(slice_st(n))
    if n > 0:
        if norepeat:
            lst = st.tuples(st.permutations(list(range(n))), st.integers(0, n), st.lists(st.booleans(), min_size=n, max_size=n)).map(
                lambda t: [i - n if g else i for i, g in zip(t[0][:t[1]], t[2])])
        else:
            def perturbed(t):
                # the identity list with one entry repeated in place of a neighbour / a swapped pair / reversed inner part
                kind, i, j = t
                base = list(range(n))
                i, j = i % n, j % n
                if kind == 0:
                    base[j] = base[i]
                elif kind == 1:
                    base[i], base[j] = base[j], base[i]
                elif kind == 2 and n > 2:
                    base = [base[0]] + base[1:-1][::-1] + [base[-1]]
                else:
                    base = base[i:] + base[:i]
                return base
            good = st.lists(st.integers(-n, n - 1), max_size=n + 3)
            alts_l = [good, good, good, st.tuples(st.integers(0, 3), st.integers(0, 50), st.integers(0, 50)).map(perturbed)]
            if allow_bad_int:
                # one entry just outside [-n, n): the whole selection must be refused
                alts_l.append(st.tuples(good, st.sampled_from([n, n + 1, -n - 1, -n - 2, 2 * n + 3]), st.integers(0, 50)).map(
                    lambda t: t[0][:t[2] % (len(t[0]) + 1)] + [t[1]] + t[0][t[2] % (len(t[0]) + 1):]))
            lst = st.one_of(*alts_l)
    else:
        lst = st.just([])
    alts.append(st.tuples(lst, st.sampled_from(["list", "int64", "int64", "int32", "intp"])).map(lambda t: ["l", t[0], t[1]]))
    alts.append(st.tuples(st.lists(st.booleans(), min_size=n, max_size=n), st.booleans()).map(lambda t: ["m", t[0], t[1]]))
    alts.append(st.just(["e"]))
    return st.one_of(*alts)


@_cache
def colsel(L, allow_none=True):
    alts = [st.tuples(st.integers(-L - 2, L + 1), st.booleans()).map(lambda t: ["i", t[0], t[1]]),
            slice_st(L), slice_st(L)]
    if allow_none:
        alts.append(st.none())
    return st.one_of(*alts)


def near_values(draw, vals, dt):
    """values of element type dt that coincide with `vals` or differ by one, as far as dt can hold them: the boundary cases
    of comparisons, minimum / maximum and differences, also across element types (64-bit values no float64 can tell apart)"""
    if dt == "bool":
        return [bool(v) for v in vals]
    deltas = draw(st.lists(st.sampled_from([0, 0, 1, -1]), min_size=len(vals), max_size=len(vals)))
    out = []
    isf = dt in FLOAT_DT
    for v, d in zip(vals, deltas):
        if isinstance(v, float) and (v != v or v in (float("inf"), float("-inf"))):
            out.append(v if isf else 0)
            continue
        if isf:
            out.append(float(v) + d)
        else:
            lo, hi = int_range(dt)
            out.append(min(max(int(v) + d, lo), hi))
    return out
