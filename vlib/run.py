"""./check entry point.  See /verif/DESIGN.md section 2."""
import glob
import hashlib
import json
import multiprocessing as mp
import os
import sys
import time
import traceback

import numpy as np

HERE = os.path.dirname(os.path.dirname(os.path.abspath(__file__)))
THOROUGH_FACTOR = 0.3   # the per-sub-check thorough budgets are scaled so that one property takes roughly 6-10 min on 16 idle cores


def die(msg):
    print("HARNESS-ERROR: " + msg, flush=True)
    sys.exit(2)


def check_import():
    repo = os.path.realpath(os.environ.get("VERIF_REPO", "/repo"))
    import npstructures
    f = os.path.realpath(npstructures.__file__)
    if not f.startswith(repo + os.sep):
        die(f"npstructures imported from {f}, not from {repo}")


def known_findings(pid):
    """ids of 'finding:' lines for this property in KNOWN_FINDINGS.txt (never written here)."""
    out = {}
    path = os.path.join(HERE, "KNOWN_FINDINGS.txt")
    if not os.path.exists(path):
        return out
    for line in open(path):
        line = line.strip()
        if not line.startswith("finding:"):
            continue
        toks = line.split()
        d = dict(t.split("=", 1) for t in toks[1:3] if "=" in t)
        if d.get("property") == pid and "id" in d:
            out[d["id"]] = " ".join(toks[3:])
    return out


def write_replay(pid, sub, payload, seed, tier):
    d = os.path.join(HERE, "evidence", "replay")
    os.makedirs(d, exist_ok=True)
    body = {"property": pid, "subcheck": sub, "case": payload["case"], "kind": payload["kind"],
            "detail": payload["detail"], "seed": seed, "tier": tier}
    s = json.dumps(body, sort_keys=True)
    name = f"{pid}-{sub}-{hashlib.sha1(s.encode()).hexdigest()[:10]}.json"
    path = os.path.join(d, name)
    with open(path, "w") as f:
        json.dump(body, f, indent=1, sort_keys=True)
    return os.path.relpath(path, HERE)


def replay(pid, path):
    from . import core
    mod = core.load_module(pid)
    rec = json.load(open(path))
    sc = core.find_subcheck(mod, rec["subcheck"])
    v = core.run_body(sc, rec["case"])
    if v is None:
        print(f"replay: property={pid} subcheck={sc.name} case passes")
        return 0
    print(f"replay: {v.kind} {json.dumps(v.payload()['detail'])[:2000]}")
    print(f"VIOLATION property={pid} replay={path}")
    return 1


def main(argv):
    if len(argv) < 2:
        die("usage: check <ID> quick|thorough | check <ID> --replay FILE")
    pid = argv[0].upper()
    check_import()
    from . import core
    if argv[1] == "--replay":
        try:
            return replay(pid, argv[2])
        except SystemExit:
            raise
        except BaseException:
            traceback.print_exc()
            return 2
    tier = argv[1]
    if tier == "auto":   # tier taken from the environment, default quick
        tier = os.environ.get("VERIF_TIER", "quick")
    if tier not in ("quick", "thorough"):
        die("tier must be quick, thorough or auto")
    try:
        seed = int(os.environ.get("VERIF_SEED", "1"))
    except ValueError:
        seed = int.from_bytes(hashlib.sha1(os.environ["VERIF_SEED"].encode()).digest()[:4], "little")
    only = os.environ.get("VERIF_ONLY")  # development aid: comma list of sub-check names
    scale = float(os.environ.get("VERIF_SCALE", "1"))
    t0 = time.time()
    try:
        mod = core.load_module(pid)
    except BaseException:
        traceback.print_exc()
        die("cannot import property module")
    listed = known_findings(pid)

    violations = []     # (sub, replay path, kind)
    known_hit = {}      # finding id -> text
    errors = []

    # ---- replay tier: committed regressions first
    n_regress = 0
    for path in sorted(glob.glob(os.path.join(HERE, "regress", pid, "*.json"))):
        rec = json.load(open(path))
        try:
            sc = core.find_subcheck(mod, rec["subcheck"])
            v = core.run_body(sc, rec["case"])
        except BaseException:
            errors.append(f"regress {path}:\n" + traceback.format_exc())
            continue
        n_regress += 1
        if v is not None:
            rel = os.path.relpath(path, HERE)
            print(f"regression {rel}: {v.kind} {json.dumps(v.payload()['detail'])[:600]}")
            violations.append((sc.name, rel, v.kind))

    # ---- plan tasks
    tasks = []
    for sc in mod.SUBCHECKS:
        if only and sc.name not in only.split(","):
            continue
        if sc.kind == "enum":
            if tier not in sc.enum_tiers:
                continue
            for i, ch in enumerate(sc.chunks(tier)):
                tasks.append(dict(pid=pid, sub=sc.name, tier=tier, seed=seed, shard=i, n=0, chunk=ch))
            continue
        if sc.kind == "atheris" and tier != "thorough":
            continue
        total = sc.quick if tier == "quick" else int(sc.thorough * THOROUGH_FACTOR)
        total = max(1, int(total * scale))
        if total <= 0:
            continue
        shards = sc.shards_quick if tier == "quick" else sc.shards_thorough
        shards = max(1, min(shards, total))
        per = (total + shards - 1) // shards
        for i in range(shards):
            tasks.append(dict(pid=pid, sub=sc.name, tier=tier, seed=seed, shard=i, n=per, chunk=None))
    # long tasks first
    tasks.sort(key=lambda t: -t["n"])
    nproc = int(os.environ.get("VERIF_JOBS", "16"))
    results = []
    if tasks:
        ctx = mp.get_context("fork")
        with ctx.Pool(min(nproc, len(tasks)), maxtasksperchild=None) as pool:
            for r in pool.imap_unordered(core.work, tasks, chunksize=1):
                results.append(r)

    # ---- aggregate
    per_sub = {}
    all_hashes = []
    for r in results:
        s = per_sub.setdefault(r["sub"], dict(evaluations=0, nontrivial_evals=0, labels={}, samples=[],
                                               redirected=0, skips=0, shards=0, wall=0.0, hashes=[]))
        if r["error"]:
            errors.append(f"sub-check {r['sub']} shard {r['shard']}:\n{r['error']}")
            continue
        s["evaluations"] += r["evaluations"]
        s["nontrivial_evals"] += r["nontrivial_evals"]
        s["redirected"] += r["redirected"]
        s["skips"] += r["skips"]
        s["shards"] += 1
        s["wall"] = max(s["wall"], r["wall"])
        for k, v in r["labels"].items():
            s["labels"][k] = s["labels"].get(k, 0) + v
        if len(s["samples"]) < 6:
            s["samples"].extend(r["samples"][: 6 - len(s["samples"])])
        s["hashes"].append(r["hashes"])
        if r["violation"]:
            s.setdefault("violations", []).append(r["violation"])

    subs_by_name = {sc.name: sc for sc in mod.SUBCHECKS}
    sub_evidence = {}
    total_eval = 0
    distinct_total = 0
    samples = []
    for name, s in sorted(per_sub.items()):
        sc = subs_by_name[name]
        hs = np.unique(np.concatenate(s["hashes"])) if s["hashes"] else np.zeros(0, np.uint64)
        distinct = int(hs.size)
        total_eval += s["evaluations"]
        distinct_total += distinct
        ev = dict(evaluations=s["evaluations"], distinct_nontrivial=distinct,
                  nontrivial_evaluations=s["nontrivial_evals"],
                  classes=dict(sorted(s["labels"].items())), redirected_from_known_findings=s["redirected"],
                  skipped_steps=s["skips"], shards=s["shards"], kind=sc.kind, wall_s=round(s["wall"], 2),
                  what=sc.doc)
        if sc.kind == "enum":
            ev["exhaustive"] = True
        if sc.finding_id:
            ev["probe_of_known_finding"] = sc.finding_id
        sub_evidence[name] = ev
        for smp in s["samples"][:2]:
            samples.append({"subcheck": name, "case": smp})
        vs = s.get("violations", [])
        if vs:
            vs.sort(key=lambda v: len(json.dumps(v["case"])))
            v = vs[0]
            if sc.finding_id and sc.finding_id in listed:
                known_hit[sc.finding_id] = (listed[sc.finding_id], v)
                ev["known_finding_reproduced"] = True
            else:
                rel = write_replay(pid, name, v, seed, tier)
                print(f"violation in {name}: {v['kind']} case={json.dumps(v['case'])[:700]} detail={json.dumps(v['detail'])[:700]}")
                violations.append((name, rel, v["kind"]))
        elif sc.finding_id and sc.finding_id in listed:
            ev["known_finding_reproduced"] = False

    for fid, (text, v) in sorted(known_hit.items()):
        print(f"KNOWN-FINDING: property={pid} id={fid} {text}")
    for fid in listed:
        if fid not in known_hit and any(sc.finding_id == fid for sc in mod.SUBCHECKS) and not only:
            print(f"note: listed finding {fid} was not reproduced by its probe in this run")

    wall = time.time() - t0
    rule = getattr(mod, "RULE", "")
    evidence = {
        "property_id": pid,
        "tier": tier,
        "seed": seed,
        "level": "exploration",
        "coverage": {
            "evaluations": int(total_eval),
            "distinct_nontrivial": int(distinct_total),
            "rule": rule,
            "samples": samples[:24],
            "regression_cases_replayed": n_regress,
            "subchecks": sub_evidence,
            "exhaustive": False,
            "known_findings_reproduced": sorted(known_hit),
        },
        "assumptions": getattr(mod, "ASSUMPTIONS", []),
        "wall_s": round(wall, 2),
        "violations": len(violations),
    }
    if not only and not os.environ.get("VERIF_NO_EVIDENCE"):   # VERIF_NO_EVIDENCE: sensitivity runs against mutated copies
        os.makedirs(os.path.join(HERE, "evidence"), exist_ok=True)
        with open(os.path.join(HERE, "evidence", f"{pid}.json"), "w") as f:
            json.dump(evidence, f, indent=1, sort_keys=True, default=str)
            f.write("\n")

    print(f"{pid} {tier} seed={seed}: {total_eval} evaluations, {distinct_total} distinct non-trivial, "
          f"{len(per_sub)} sub-checks, {n_regress} regressions, {wall:.1f}s")
    if os.environ.get("VERIF_VERBOSE"):
        for name, ev in sub_evidence.items():
            print(f"  {name}: eval={ev['evaluations']} nt={ev['distinct_nontrivial']} wall={ev['wall_s']} classes={ev['classes']}")
    if errors:
        for e in errors:
            print("HARNESS-ERROR: " + e)
        return 2
    if violations:
        for name, rel, kind in violations:
            print(f"VIOLATION property={pid} replay={rel}")
        return 1
    return 0


if __name__ == "__main__":
    sys.exit(main(sys.argv[1:]))
