"""C17  2-D and ragged run-length arrays behave as one run-length array per row."""
import numpy as np
from hypothesis import strategies as st

from .. import gen, rl
from ..core import SubCheck, Violation
from ..oracle import LAZY_CHOICES, LAYOUTS, layout, lib, jsonable, arrays_equal, py_sel, model_index
from .c16 import build
from .c05 import close

RULE = ("Cases = matrices (1-6 x 1-9) for RunLength2dArray and ragged arrays with rows of 1-9 elements for RunLengthRaggedArray, "
        "rows built from generated run boundaries and values over bool/int8/int64/uint8/float64; interval lists for "
        "from_intervals.  Operations (each on the variant(s) that define it): decode, len/shape/size; row selection by int / "
        "slice / list / mask chained to depth 2 (empty selections included) followed by decode / sum / any / element / column "
        "sum / ufunc / len-size; element [i, j] with negative j; on the ragged variant column [rows, j] and column ranges "
        "[rows, a:b:s] restricted to the property's domain (non-empty in every selected row; negative steps only with bounds "
        "inside the rows); row-wise sum/any/all (both), max/mean/argmax (ragged); column-wise sum (both), mean and counts "
        "(ragged), any (matrix; also interval-structured inputs); ravel; np.concatenate; np.sum/mean/max; unary ufuncs; "
        "ufuncs with a scalar or (n,1) column on either side incl. non-commutative ones.  Oracle = numpy on the dense rows.  "
        "Non-trivial = at least two rows with different run structure; for ufuncs: operand on the left of a non-commutative ufunc."
        "  Matrix inputs in C / F / transposed / strided / reversed-stride layout; every source array is overwritten by the caller after encoding.")
ASSUMPTIONS = ["column-wise sum / mean of float data holding inf or nan is known finding K3 (probe-K3-column-sum-nonfinite); the other column sub-checks use "
               "finite floats; row-wise reductions are checked with non-finite values too (float64; the float32 row mean comes back as float64 and is not asserted)",
               "column selection and max/mean/argmax on the matrix variant are not claimed by the property: not asserted",
               "values are finite; reductions are compared by value (float tolerance 4 ulp)"]

DTS = ["bool", "int8", "int64", "uint8", "float64"]


def dense_rows(case):
    return [build(case["dt"], r["n"], r["c"], r["v"]) for r in case["rows"]]


def encode(case, rows):
    """the encoded object; the arrays it was made from are the caller's and are overwritten right afterwards"""
    from npstructures import RunLength2dArray, RunLengthRaggedArray, RaggedArray
    from ..oracle import lazy_ra
    if case["kind"] == "2d":
        m = layout(np.array(rows), case.get("layout", "C"))
        x = RunLength2dArray.from_array(m)
        rl.scribble(m)
        return x
    if case.get("via") == "from_array" and len({len(r) for r in rows}) == 1:
        m = layout(np.array(rows), case.get("layout", "C"))
        x = RunLengthRaggedArray.from_array(m)
        rl.scribble(m)
        return x
    # "a ragged array with non-empty rows": freshly built or itself a pending selection
    src = lazy_ra(rows, case["dt"], case.get("src_lz", 0)) if "dt" in case else RaggedArray(rows)
    x = RunLengthRaggedArray.from_ragged_array(src)
    rl.scribble(src.ravel())
    return x


def torows(x):
    """decode a RunLengthArray / 2-D variant / ragged variant to a list of dense rows"""
    from npstructures import RaggedArray, RunLengthArray
    if isinstance(x, RunLengthArray):
        return [np.asarray(x.to_array())]
    d = x.to_array()
    if isinstance(d, RaggedArray):
        return [np.asarray(r) for r in d]
    d = np.asarray(d)
    if d.ndim == 2:
        return [r for r in d]
    if d.size == 0:
        return []
    raise Violation("decode:shape", got=jsonable(d))


def rows_same(g, e):
    return len(g) == len(e) and all(a.shape == b.shape and arrays_equal(a, b) for a, b in zip(g, e))


def expect_rows(out, exp, what, check_dtype=True, **info):
    if not out.ok:
        raise Violation(what + ":unexpected-refusal", got=out.brief(), expected=jsonable([e.tolist() for e in exp]), **info)
    r = lib(torows, out.value)
    if not r.ok:
        raise Violation(what + ":undecodable", got=r.brief(), **info)
    from .c04 import INEXACT, close_enough
    if info.get("uf") in INEXACT:
        # numpy's own loops for these functions (contiguous / strided / scalar) differ in the last bit: a few ulps are allowed
        same = len(r.value) == len(exp) and all(close_enough(g, e, info["uf"]) for g, e in zip(r.value, exp))
    else:
        same = rows_same(r.value, exp)
    if not same:
        raise Violation(what + ":values", expected=jsonable([e.tolist() for e in exp]), got=jsonable([g.tolist() for g in r.value]), **info)
    if check_dtype and exp and any(g.dtype != e.dtype for g, e in zip(r.value, exp) if e.size):
        raise Violation(what + ":dtype", expected=str(exp[0].dtype), got=str(r.value[0].dtype), **info)
    lockstep(out.value, what, **info)


def lockstep(x, what, **info):
    """validity: boundaries and values advance in lock-step, boundaries strictly increase from 0"""
    ind, val = getattr(x, "_indices", None), getattr(x, "_values", None)
    if ind is None or val is None or not hasattr(x, "_row_len"):
        return
    r = lib(lambda: ([np.asarray(r) for r in ind], [np.asarray(r) for r in val]))
    if not r.ok:
        raise Violation(what + ":lockstep-unreadable", got=r.brief(), **info)
    extra = 1 if x._row_len is None else 0
    for b, v in zip(*r.value):
        if len(b) != len(v) + extra or (len(b) and b[0] != 0) or np.any(np.diff(b) <= 0):
            raise Violation(what + ":lockstep", boundaries=jsonable(b), values=jsonable(v), row_len=jsonable(x._row_len), **info)


def vec_close(g, e):
    g, e = np.asarray(g), np.asarray(e)
    if g.shape != e.shape:
        return False
    if e.dtype.kind == "f" or g.dtype.kind == "f":
        return close(g.astype(np.float64), e.astype(np.float64), 4)
    return arrays_equal(g.astype(np.int64) if g.dtype.kind in "iub" else g, e.astype(np.int64) if e.dtype.kind in "iub" else e)


def base(case, ctx):
    rows = dense_rows(case)
    structs = {tuple(rl.run_structure(r)) for r in rows}
    ctx.label("kind:" + case["kind"], "dt:" + case["dt"], "rows:%d" % min(len(rows), 4),
              "source:pending" if case["kind"] == "rag" and case.get("src_lz") else "source:fresh")
    ctx.nt(len(rows) >= 2 and len(structs) >= 2)
    enc = lib(encode, case, rows)
    if not enc.ok:
        raise Violation("encode:unexpected-refusal", got=enc.brief(), rows=jsonable([r.tolist() for r in rows]))
    return rows, enc.value


# ---------------------------------------------------------------- decode, meta, selection chains

def sel_rows(rows, sel):
    m = model_index([list(range(len(rows)))], ["i", 0, False])  # noqa: F841  (keeps model_index imported for clarity)
    k = sel[0]
    if k == "i":
        return [rows[sel[1]]], True
    if k == "s":
        return rows[slice(sel[1], sel[2], sel[3])], False
    if k == "l":
        return [rows[i] for i in sel[1]], False
    return [r for r, mk in zip(rows, sel[1]) if mk], False


def fit_sel(sel, n):
    """make a generated selector valid for n rows (n >= 1)"""
    k = sel[0]
    if k == "i":
        return ["i", sel[1] % (2 * n) - n, sel[2]]
    if k == "l":
        return ["l", [i % (2 * n) - n for i in sel[1]], sel[2]]
    if k == "m":
        return ["m", [bool(sel[1][i % len(sel[1])]) for i in range(n)], sel[2]]
    return sel


def body_select(case, ctx):
    rows, x = base(case, ctx)
    cur_rows, cur = rows, x
    single = False
    expect_rows(lib(lambda: x), rows, "decode")
    n = len(rows)
    meta = lib(lambda: (len(x), x.shape[0], x.size))
    if not meta.ok or int(meta.value[0]) != n or int(meta.value[1]) != n or int(meta.value[2]) != sum(len(r) for r in rows):
        raise Violation("meta:len-shape-size", got=meta.brief(), expected=[n, n, sum(len(r) for r in rows)])
    sh1 = lib(lambda: x.shape[1])
    if case["kind"] == "2d":
        if not sh1.ok or int(sh1.value) != len(rows[0]):
            raise Violation("meta:shape1", got=sh1.brief())
    elif not sh1.ok or [int(v) for v in np.atleast_1d(sh1.value)] != [len(r) for r in rows]:
        raise Violation("meta:shape1", got=sh1.brief(), expected=[len(r) for r in rows])
    for depth, raw in enumerate(case["sels"]):
        if single or not cur_rows:
            break
        sel = fit_sel(raw, len(cur_rows))
        ctx.label("sel%d:%s" % (depth, sel[0]))
        exp, single = sel_rows(cur_rows, sel)
        idx = py_sel(sel)
        form = case.get("forms", ["plain", "plain"])[depth % 2]
        if form == "r-ell" and case["kind"] == "2d" and sel[0] != "i":
            form = "tuple1"    # x[rows, ...] runs through the column-range code, which the property claims for the ragged variant only
        ctx.label("form:" + form)
        idx = {"plain": idx, "tuple1": (idx,), "r-ell": (idx, Ellipsis)}[form]
        got = lib(lambda: cur[idx])
        if not exp:
            ctx.label("empty-selection")
        expect_rows(got, exp, "row-select", sel=sel, depth=depth)
        cur_rows, cur = exp, got.value
    op = case["then"]
    if not cur_rows or single:
        return
    ctx.label("then:" + op[0])
    with np.errstate(all="ignore"):
        if op[0] == "sum":
            g = lib(lambda: np.asarray(cur.sum(axis=-1)))
            if not g.ok or not vec_close(g.value, np.array([np.sum(r) for r in cur_rows])):
                raise Violation("chain:row-sum", got=g.brief(), expected=jsonable([np.sum(r) for r in cur_rows]))
        elif op[0] == "any":
            g = lib(lambda: np.asarray(cur.any(axis=-1)))
            if not g.ok or [bool(v) for v in g.value] != [bool(np.any(r)) for r in cur_rows]:
                raise Violation("chain:row-any", got=g.brief())
        elif op[0] == "elem":
            i = op[1] % len(cur_rows)
            j = op[2] % (2 * len(cur_rows[i])) - len(cur_rows[i])
            g = lib(lambda: cur[i, j])
            if not g.ok or np.asarray(g.value).size != 1 or not arrays_equal(np.asarray(g.value).reshape(()), cur_rows[i][j]):
                raise Violation("chain:element", i=i, j=j, got=g.brief(), expected=jsonable(cur_rows[i][j]))
        elif op[0] == "colsum":
            L = max(len(r) for r in cur_rows)
            exp = np.array([np.sum([r[j] for r in cur_rows if len(r) > j]) for j in range(L)])
            g = lib(lambda: np.asarray(cur.sum(axis=0)))
            if not g.ok or not vec_close(g.value, exp):
                raise Violation("chain:column-sum", got=g.brief(), expected=jsonable(exp))
        elif op[0] == "ufunc":
            e = lib(lambda: [r + 1 for r in cur_rows])
            if e.ok:
                expect_rows(lib(lambda: cur + 1), e.value, "chain:ufunc")
        else:
            g = lib(lambda: (len(cur), int(cur.size)))
            if not g.ok or g.value != (len(cur_rows), sum(len(r) for r in cur_rows)):
                raise Violation("chain:len-size", got=g.brief())


def body_elem(case, ctx):
    rows, x = base(case, ctx)
    i = case["i"] % (2 * len(rows)) - len(rows)
    j = case["j"] % (2 * len(rows[i])) - len(rows[i])
    ctx.label("neg-col" if j < 0 else "pos-col", "neg-row" if i < 0 else "pos-row")
    g = lib(lambda: x[i, j])
    if not g.ok or np.asarray(g.value).size != 1 or not arrays_equal(np.asarray(g.value).reshape(()), rows[i][j]):
        raise Violation("element", i=i, j=j, got=g.brief(), expected=jsonable(rows[i][j]))


def body_column(case, ctx):
    """ragged variant: [rows, j] and [rows, a:b:s] inside the property's domain"""
    rows, x = base(case, ctx)
    n = len(rows)
    sel = fit_sel(case["rsel"], n) if case["rsel"][0] != "e" else ["e"]
    chosen = rows if sel[0] == "e" else sel_rows(rows, sel)[0]
    ctx.label("rsel:" + sel[0])
    if not chosen:
        ctx.label("empty-row-selection-not-asserted")
        return
    mn = min(len(r) for r in chosen)
    ridx = Ellipsis if sel[0] == "e" else py_sel(sel)
    c = case["csel"]
    if c[0] == "i":
        j = c[1] % (2 * mn) - mn
        ctx.label("col:int", "neg-col" if j < 0 else "pos-col")
        g = lib(lambda: x[ridx, j])
        exp = np.array([r[j] for r in chosen])
        if not g.ok or not np.asarray(g.value).shape == exp.shape or not arrays_equal(np.asarray(g.value), exp):
            raise Violation("column:int", sel=sel, j=j, got=g.brief(), expected=jsonable(exp))
    else:
        cs = slice(c[1], c[2], c[3])
        exp = [r[cs] for r in chosen]
        step = c[3] or 1
        if any(len(e) == 0 for e in exp):
            ctx.label("empty-range-not-claimed")
            return
        if step < 0 and not all(b is None or -mn <= b < mn for b in (c[1], c[2])):
            ctx.label("neg-step-bounds-outside-not-claimed")
            return
        ctx.label("col:slice", "neg-step" if step < 0 else "pos-step", "wide-step" if abs(step) > 1 else "unit-step")
        expect_rows(lib(lambda: x[ridx, cs]), exp, "column-range", sel=sel, cs=c[1:])


# ---------------------------------------------------------------- reductions

def body_rowred(case, ctx):
    rows, x = base(case, ctx)
    f, spell = case["f"], case["spell"]
    ctx.label("f:" + f, "spell:" + spell)
    with np.errstate(all="ignore"):
        exp = np.array([getattr(np, f)(r) for r in rows])
        g = lib(lambda: getattr(x, f)(axis=case["axis"]) if spell == "method" else getattr(np, f)(x, axis=case["axis"]))
    if not g.ok:
        raise Violation("row-reduce:unexpected-refusal", f=f, got=g.brief(), expected=jsonable(exp))
    v = np.asarray(g.value)
    ok = [bool(a) for a in v] == [bool(b) for b in exp] if f in ("any", "all") and v.shape == exp.shape else vec_close(v, exp)
    if not ok:
        raise Violation("row-reduce:values", f=f, got=jsonable(v), expected=jsonable(exp))


def body_colred(case, ctx):
    rows, x = base(case, ctx)
    f = case["f"]
    der = case.get("derive")
    if der is not None and case["dt"] != "bool":
        # the reduced object is itself the result of a comparison with a scalar: neighbouring runs may share a truth value
        thr = rows[0][0]
        with np.errstate(all="ignore"):
            d = lib(lambda: (x > thr) if der == "gt" else (x != thr))
        if not d.ok:
            raise Violation("column-reduce:derive-refused", got=d.brief())
        x = d.value
        rows = [(np.asarray(r) > thr) if der == "gt" else (np.asarray(r) != thr) for r in rows]
        ctx.label("source:comparison-result")
    L = max(len(r) for r in rows)
    cols = [[r[j] for r in rows if len(r) > j] for j in range(L)]
    ctx.label("f:" + f)
    with np.errstate(all="ignore"):
        if f == "sum":
            exp = np.array([np.sum(np.array(c)) for c in cols])
            g = lib(lambda: np.asarray(x.sum(axis=case["axis"])))
        elif f == "mean":
            exp = np.array([np.mean(np.array(c)) for c in cols])
            g = lib(lambda: np.asarray(x.mean(axis=case["axis"])))
        elif f == "counts":
            exp = np.array([len(c) for c in cols])
            g = lib(lambda: np.asarray(x.col_counts()))
        else:
            exp = np.array([bool(np.any(np.array(c))) for c in cols])
            g = lib(lambda: np.asarray(x.any(axis=case["axis"])))
    if not g.ok:
        raise Violation("column-reduce:unexpected-refusal", f=f, got=g.brief(), expected=jsonable(exp))
    v = g.value
    ok = (v.shape == exp.shape and [bool(a) for a in v] == [bool(b) for b in exp]) if f == "any" else vec_close(v, exp)
    if not ok:
        raise Violation("column-reduce:values", f=f, got=jsonable(v), expected=jsonable(exp))


def body_colany_intervals(case, ctx):
    """matrix variant built from several True-intervals per row: nested, abutting, disjoint"""
    from npstructures import RunLength2dArray
    L, dt = case["L"], case["dt"]
    M = np.zeros((len(case["rows"]), L), dtype=dt)
    for i, ivs in enumerate(case["rows"]):
        for s, l, v in ivs:
            s = s % L
            e = s + 1 + l % (L - s)
            M[i, s:e] = True if dt == "bool" else 1 + v % 3
    ctx.label("dt:" + dt, "rows:%d" % min(len(M), 4))
    ctx.nt(len(M) >= 2)
    x = RunLength2dArray.from_array(M)
    g = lib(lambda: np.asarray(x.any(axis=case["axis"])))
    if not g.ok or g.value.shape != (L,) or not np.array_equal(g.value.astype(bool), M.any(axis=0)):
        raise Violation("column-any", matrix=M.astype(int).tolist(), got=g.brief(), expected=M.any(axis=0).tolist())
    s = lib(lambda: np.asarray(x.sum(axis=0)))
    if not s.ok or not vec_close(s.value, M.sum(axis=0)):
        raise Violation("column-sum", matrix=M.astype(int).tolist(), got=s.brief(), expected=M.sum(axis=0).tolist())


# ---------------------------------------------------------------- ravel, concatenate, ufuncs, intervals

def body_ravel_concat(case, ctx):
    rows, x = base(case, ctx)
    if case["op"] == "ravel":
        ctx.label("op:ravel")
        rl.expect_rl(lib(lambda: x.ravel()), np.concatenate(rows), "ravel", strict=False)
    else:
        ctx.label("op:concatenate")
        others = [dense_rows({"dt": case["dt"], "rows": p}) for p in case["others"]]
        xs = [x] + [encode({"kind": "rag"}, o) for o in others]
        expect_rows(lib(lambda: np.concatenate(xs)), rows + [r for o in others for r in o], "concatenate")


UF_BIN = {"add": True, "multiply": True, "maximum": True, "equal": True, "bitwise_and": True, "logical_or": True,
          "subtract": False, "less": False, "true_divide": False, "floor_divide": False, "power": False, "greater_equal": False,
          "right_shift": False, "minimum": True}
UF_UN = ["negative", "absolute", "logical_not", "square", "sign", "invert"]


def body_ufunc(case, ctx):
    rows, x = base(case, ctx)
    name, kind, side = case["uf"], case["operand"][0], case["side"]
    uf = getattr(np, name)
    n = len(rows)
    ctx.label("uf:" + name, "operand:" + kind, "side:" + side)
    with np.errstate(all="ignore"):
        if kind == "unary":
            e = lib(lambda: [uf(r) for r in rows])
            g = lib(lambda: uf(x))
        else:
            if kind == "scalar":
                s = case["operand"][1]
                if case["operand"][2]:
                    s = np.dtype(case["operand"][2]).type(s)
                per_row = [s] * n
                obj = s
            else:
                col = np.array([case["operand"][1][i % len(case["operand"][1])] for i in range(n)], dtype=case["operand"][2])
                per_row = list(col)
                obj = col.reshape(n, 1)
            left = side == "left"
            ctx.nt(left and not UF_BIN[name])
            e = lib(lambda: [uf(p, r) if left else uf(r, p) for r, p in zip(rows, per_row)])
            g = lib(lambda: uf(obj, x) if left else uf(x, obj))
    if not e.ok:
        ctx.label("numpy-refuses-not-asserted")
        return
    expect_rows(g, e.value, "ufunc", uf=name, side=side)
    expect_rows(lib(lambda: x), rows, "ufunc-operand-after")


def body_intervals(case, ctx):
    from npstructures import RunLength2dArray
    L = case["L"]
    ivs = []
    for s, l in case["iv"]:
        s = s % L
        ivs.append((s, s + 1 + l % (L - s)))
    k = len(ivs)
    st_ = np.array([a for a, _ in ivs], dtype=np.int64)
    en = np.array([b for _, b in ivs], dtype=np.int64)
    vk = case["value"][0]
    if vk == "default":
        val, call = 1, lambda: RunLength2dArray.from_intervals(st_, en, L)
    elif vk == "scalar":
        val = case["value"][1]
        call = lambda: RunLength2dArray.from_intervals(st_, en, L, value=val)
    else:
        val = np.array([2 + case["value"][1][i % len(case["value"][1])] for i in range(k)], dtype=np.int64)
        call = lambda: RunLength2dArray.from_intervals(st_, en, L, value=val)
    exp = np.zeros((k, L), dtype=np.int64)
    for i, (a, b) in enumerate(ivs):
        exp[i, a:b] = val if np.isscalar(val) else val[i]
    ctx.label("value:" + vk, "k:%d" % min(k, 3), "touches-start" if any(a == 0 for a, _ in ivs) else "inner-start",
              "touches-end" if any(b == L for _, b in ivs) else "inner-end")
    ctx.nt(k >= 2)
    g = lib(call)
    if not g.ok:
        raise Violation("from_intervals:unexpected-refusal", got=g.brief(), intervals=ivs, L=L)
    x = g.value
    if k == 0:
        d = lib(lambda: (len(x), np.asarray(x.to_array()).size))
        if not d.ok or d.value != (0, 0):
            raise Violation("from_intervals:zero-intervals", got=d.brief())
        return
    expect_rows(g, list(exp), "from_intervals", check_dtype=False, intervals=ivs, L=L)
    m = lib(lambda: (len(x), tuple(int(t) for t in x.shape), int(x.size), np.asarray(x.sum(axis=-1)), np.asarray(x.sum(axis=0)), np.asarray(x.any(axis=0))))
    if not m.ok:
        raise Violation("from_intervals:ops-refused", got=m.brief(), intervals=ivs, L=L)
    n_, shape, size, rs, cs, ca = m.value
    if n_ != k or shape != (k, L) or size != k * L:
        raise Violation("from_intervals:len-shape-size", got=[n_, list(shape), size], expected=[k, [k, L], k * L])
    if not vec_close(rs, exp.sum(axis=1)) or not vec_close(cs, exp.sum(axis=0)) or ca.shape != (L,) or not np.array_equal(ca.astype(bool), exp.any(axis=0)):
        raise Violation("from_intervals:reductions", row_sum=jsonable(rs), col_sum=jsonable(cs), col_any=jsonable(ca), matrix=exp.tolist())


def body_sequence(case, ctx):
    """2-5 operations on ONE 2-D / ragged run-length object; each equals numpy on the dense rows and the object still
    decodes to the same rows afterwards (caches and shared geometry objects show up here)"""
    rows, x = base(case, ctx)
    n = len(rows)
    ctx.nt(len(case["ops"]) >= 2 and n >= 2)
    with np.errstate(all="ignore"):
        for k, op in enumerate(case["ops"]):
            ctx.label("seq:" + op[0])
            info = dict(step=k, op=op, before=case["ops"][:k])
            if op[0] == "decode":
                expect_rows(lib(lambda: x), rows, "seq-decode", **info)
            elif op[0] == "rowsum":
                g = lib(lambda: np.asarray(x.sum(axis=-1)))
                if not g.ok or not vec_close(g.value, np.array([np.sum(r) for r in rows])):
                    raise Violation("seq-row-sum", got=g.brief(), **info)
            elif op[0] == "colsum":
                L = max(len(r) for r in rows)
                exp = np.array([np.sum([r[j] for r in rows if len(r) > j]) for j in range(L)])
                g = lib(lambda: np.asarray(x.sum(axis=0)))
                if not g.ok or not vec_close(g.value, exp):
                    raise Violation("seq-column-sum", got=g.brief(), expected=jsonable(exp), **info)
            elif op[0] == "any":
                g = lib(lambda: np.asarray(x.any(axis=-1)))
                if not g.ok or [bool(v) for v in g.value] != [bool(np.any(r)) for r in rows]:
                    raise Violation("seq-row-any", got=g.brief(), **info)
            elif op[0] == "elem":
                i = op[1] % n
                j = op[2] % (2 * len(rows[i])) - len(rows[i])
                g = lib(lambda: x[i, j])
                if not g.ok or np.asarray(g.value).size != 1 or not arrays_equal(np.asarray(g.value).reshape(()), rows[i][j]):
                    raise Violation("seq-element", i=i, j=j, got=g.brief(), **info)
            elif op[0] == "rowsel":
                sel = fit_sel(op[1], n)
                exp, single = sel_rows(rows, sel)
                expect_rows(lib(lambda: x[py_sel(sel)]), exp, "seq-row-select", sel=sel, **info)
            elif op[0] == "ufunc":
                e = lib(lambda: [r + 1 for r in rows])
                if e.ok:
                    expect_rows(lib(lambda: x + 1), e.value, "seq-ufunc", **info)
            elif op[0] == "neg":
                e = lib(lambda: [np.abs(r) for r in rows])
                if e.ok:
                    expect_rows(lib(lambda: abs(x)), e.value, "seq-abs", **info)
            expect_rows(lib(lambda: x), rows, "seq-object-after-" + op[0], **info)


@st.composite
def sequence_case(draw, tier):
    case = draw(arr_st())
    simple = st.sampled_from([["decode"], ["rowsum"], ["colsum"], ["any"], ["ufunc"], ["neg"]])
    op = st.one_of(simple, simple.map(list), simple.map(lambda o: list(o)), simple.map(lambda o: o[:]),
                   st.tuples(st.just("elem"), st.integers(0, 100), st.integers(0, 100)).map(list),
                   st.tuples(st.just("rowsel"), RAW_SEL).map(list))
    case["ops"] = draw(st.lists(op, min_size=2, max_size=5))
    return case


# ---------------------------------------------------------------- strategies

@st.composite
def row_st(draw, dt, n, nonfinite=False):
    cuts = draw(st.lists(st.integers(1, max(n - 1, 1)), max_size=4))
    # small-width integer dtypes use their full range (column sums must not wrap); wider ones stay small
    # floats: small dyadic values (sums exact in any order) plus, now and then, inf / -inf / nan / -0.0 (a non-finite value in
    # one row must never show in another row's result)
    vals = draw(st.lists(gen.elem(dt, specials=nonfinite and dt.startswith("float"), mag=None if dt in ("int8", "uint8") else 8), min_size=1, max_size=3))
    return {"n": n, "c": cuts, "v": vals}


@st.composite
def arr_st(draw, kinds=("2d", "rag"), min_rows=1, nonfinite=False):
    kind = draw(st.sampled_from(kinds))
    dt = draw(st.sampled_from(["float64"] if nonfinite else DTS))
    nr = draw(st.integers(min_rows, 6))
    if kind == "2d":
        w = draw(st.integers(1, 9))
        rows = [draw(row_st(dt, w, nonfinite)) for _ in range(nr)]
    else:
        rows = [draw(row_st(dt, draw(st.integers(1, 9)), nonfinite)) for _ in range(nr)]
    return {"kind": kind, "dt": dt, "rows": rows, "via": draw(st.sampled_from(["from_ragged_array", "from_array"])),
            "src_lz": draw(st.sampled_from(LAZY_CHOICES)), "layout": draw(st.sampled_from(LAYOUTS))}


RAW_SEL = st.one_of(
    st.tuples(st.integers(0, 100), st.booleans()).map(lambda t: ["i", t[0], t[1]]),
    gen.slice_st(4), gen.slice_st(4),
    st.tuples(st.lists(st.integers(0, 100), max_size=5), st.sampled_from(["list", "int64"])).map(lambda t: ["l", t[0], t[1] if t[0] else "int64"]),
    st.tuples(st.lists(st.booleans(), min_size=1, max_size=6), st.booleans()).map(lambda t: ["m", t[0], t[1]]))
RAW_SEL_NOINT = st.one_of(
    gen.slice_st(4),
    st.tuples(st.lists(st.integers(0, 100), min_size=1, max_size=5), st.sampled_from(["list", "int64"])).map(lambda t: ["l", t[0], t[1]]),
    st.tuples(st.lists(st.booleans(), min_size=1, max_size=6), st.booleans()).map(lambda t: ["m", t[0], t[1]]),
    st.just(["e"]))


@st.composite
def select_case(draw, tier):
    case = draw(arr_st())
    case["sels"] = draw(st.lists(RAW_SEL, min_size=0, max_size=2))
    case["forms"] = [draw(st.sampled_from(["plain", "plain", "tuple1", "r-ell"])) for _ in range(2)]
    case["then"] = draw(st.one_of(st.sampled_from([["decode"], ["sum"], ["any"], ["colsum"], ["ufunc"], ["meta"]]),
                                  st.tuples(st.just("elem"), st.integers(0, 100), st.integers(0, 100)).map(list)))
    return case


@st.composite
def elem_case(draw, tier):
    case = draw(arr_st())
    case["i"], case["j"] = draw(st.integers(0, 1000)), draw(st.integers(0, 1000))
    return case


@st.composite
def column_case(draw, tier):
    case = draw(arr_st(kinds=("rag",)))
    case["rsel"] = draw(RAW_SEL_NOINT)
    case["csel"] = draw(st.one_of(st.tuples(st.just("i"), st.integers(0, 1000)).map(list), gen.slice_st(6), gen.slice_st(3)))
    return case


@st.composite
def rowred_case(draw, tier, nonfinite=False):
    case = draw(arr_st(nonfinite=nonfinite))
    fs = ["sum", "any", "all"] + (["max", "mean", "argmax"] if case["kind"] == "rag" else [])
    case["f"] = draw(st.sampled_from(fs))
    case["spell"] = draw(st.sampled_from(["method", "np"])) if case["kind"] == "rag" and case["f"] in ("sum", "mean", "max") else "method"
    case["axis"] = draw(st.sampled_from([-1, 1])) if case["f"] in ("max", "argmax", "mean") or case["spell"] == "np" else -1
    if case["kind"] == "2d" or case["f"] in ("sum", "any", "all"):
        case["axis"] = -1
    return case


@st.composite
def colred_case(draw, tier):
    case = draw(arr_st())
    fs = ["sum", "sum"] + (["mean", "counts"] if case["kind"] == "rag" else ["any"])
    case["f"] = draw(st.sampled_from(fs))
    case["axis"] = draw(st.sampled_from([0, -2]))
    case["derive"] = draw(st.sampled_from([None, None, "gt", "ne"]))
    return case


@st.composite
def colred_nonfinite_case(draw, tier):
    case = draw(arr_st(nonfinite=True))
    case["f"] = draw(st.sampled_from(["sum", "sum", "mean"] if case["kind"] == "rag" else ["sum"]))
    case["axis"] = draw(st.sampled_from([0, -2]))
    return case


def body_colred_nonfinite(case, ctx):
    """directed probe of known finding K3: column sums are a running sum of value differences (inf - inf = nan)"""
    body_colred(case, ctx)


@st.composite
def colany_case(draw, tier):
    L = draw(st.integers(1, 12))
    iv = st.tuples(st.integers(0, 100), st.integers(0, 100), st.integers(0, 5)).map(list)
    return {"L": L, "dt": draw(st.sampled_from(["bool", "int64", "uint8"])), "axis": draw(st.sampled_from([0, -2])),
            "rows": draw(st.lists(st.lists(iv, max_size=4), min_size=1, max_size=6))}


@st.composite
def ravel_concat_case(draw, tier):
    case = draw(arr_st(kinds=("rag",)))
    case["op"] = draw(st.sampled_from(["ravel", "concatenate"]))
    case["others"] = [[draw(row_st(case["dt"], draw(st.integers(1, 7)))) for _ in range(draw(st.integers(1, 3)))]
                      for _ in range(draw(st.integers(0, 2)))] if case["op"] == "concatenate" else []
    return case


@st.composite
def ufunc_case(draw, tier):
    case = draw(arr_st())
    kind = draw(st.sampled_from(["unary", "scalar", "scalar", "column", "column"]))
    case["side"] = "right"
    if kind == "unary":
        case["uf"] = draw(st.sampled_from(UF_UN))
        case["operand"] = ["unary"]
    else:
        case["uf"] = draw(st.sampled_from(sorted(UF_BIN)))
        case["side"] = draw(st.sampled_from(["left", "right"]))
        if kind == "scalar":
            s = draw(st.sampled_from([[2, None], [3, None], [1.5, None], [True, None], [-1, None], [2, "int8"], [1, "bool"], [2.5, "float64"], [3, "uint8"]]))
            case["operand"] = ["scalar", s[0], s[1]]
        else:
            dt = draw(st.sampled_from(DTS))
            case["operand"] = ["column", draw(st.lists(gen.elem(dt, specials=False, mag=8), min_size=1, max_size=6)), dt]
    return case


@st.composite
def intervals_case(draw, tier):
    L = draw(st.integers(1, 10))
    value = draw(st.one_of(st.just(["default"]), st.tuples(st.just("scalar"), st.integers(1, 5)).map(list),
                           st.tuples(st.just("per-row"), st.lists(st.integers(0, 5), min_size=1, max_size=5)).map(list)))
    return {"L": L, "iv": draw(st.lists(st.tuples(st.integers(0, 100), st.integers(0, 100)).map(list), max_size=5)), "value": value}


SUBCHECKS = [
    SubCheck("decode-select", body_select, select_case, quick=8000, thorough=500000, shards_quick=5,
             doc="decode, len/shape/size, row selections chained to depth 2 (int/slice/list/mask, empty selections), then an operation on the result"),
    SubCheck("element", body_elem, elem_case, quick=3000, thorough=150000, shards_quick=1, doc="[i, j] with negative i / j"),
    SubCheck("column", body_column, column_case, quick=6000, thorough=400000, shards_quick=4,
             doc="ragged variant: [rows, j] and [rows, a:b:s] inside the property's domain"),
    SubCheck("row-reductions-nonfinite", body_rowred, lambda tier: rowred_case(tier, nonfinite=True), quick=3000, thorough=200000, shards_quick=2,
             doc="row-wise sum / any / all / max / mean / argmax of float rows holding inf, -inf, nan, -0.0 next to small dyadic values: a "
                 "non-finite value in one row never shows in another row's result"),
    SubCheck("row-reductions", body_rowred, rowred_case, quick=4000, thorough=250000, shards_quick=2,
             doc="sum/any/all (both variants), max/mean/argmax (ragged), method and np.<f>"),
    SubCheck("column-reductions", body_colred, colred_case, quick=4000, thorough=250000, shards_quick=2,
             doc="column sum (both), mean / counts (ragged), any (matrix), axis 0 / -2"),
    SubCheck("probe-K3-column-sum-nonfinite", body_colred_nonfinite, colred_nonfinite_case, quick=300, thorough=3000, shards_quick=1, shards_thorough=1,
             finding_id="K3-column-sum-nonfinite", doc="directed probe: column-wise sum / mean of float rows holding inf / nan"),
    SubCheck("column-any-intervals", body_colany_intervals, colany_case, quick=3000, thorough=200000, shards_quick=1,
             doc="any(axis=0) / sum(axis=0) on matrices built from nested / abutting / disjoint intervals"),
    SubCheck("ravel-concatenate", body_ravel_concat, ravel_concat_case, quick=2000, thorough=120000, shards_quick=1,
             doc="ragged variant: ravel() and np.concatenate"),
    SubCheck("ufunc", body_ufunc, ufunc_case, quick=8000, thorough=500000, shards_quick=5,
             doc="unary ufuncs; scalar or (n,1) column on either side, operand order respected"),
    SubCheck("op-sequence", body_sequence, lambda tier: sequence_case(tier), quick=4000, thorough=250000, shards_quick=3,
             doc="2-5 operations (decode, row sum / any, column sum, element, row selection, ufuncs) on ONE object, each against "
                 "numpy on the dense rows; the object decodes to the same rows after every step"),
    SubCheck("from-intervals", body_intervals, intervals_case, quick=3000, thorough=150000, shards_quick=1,
             doc="RunLength2dArray.from_intervals (scalar / per-row / default value, zero intervals) decodes to the indicator matrix; len/shape/size/reductions"),
]
