"""C06  A derived array behaves exactly like a freshly built equal array."""
import copy

import numpy as np
from hypothesis import strategies as st

from .. import gen
from ..core import SubCheck, Violation
from ..oracle import (lib, model_index, poscoded, ra_from_rows, py_sel, sel_kind, selected_rows, expect_ragged, expect_array,
                      expect_refused, snapshot, rows_equal, jsonable)
from ..prog import run_program
from . import c02

RULE = ("Programs = straight-line programs of depth 1-8 over position-coded int64 arrays with steps {row/column index, alias "
        "a[...]/a[()], unary/binary ufunc with scalar, column vector (either side) or another live array of equal lengths, "
        "concatenate, sort, cumsum, accumulate, diff, unique, where, astype, zeros/ones_like, subset, ragged_slice, assign (any "
        "selector; scalar / column / flat / ragged / pending-ragged value), fill, mask assignment, integer-row / cell / column "
        "reads, reductions, nonzero, mask selection, as_padded_matrix, column sum/mean/counts, get_column_values}.  Differential "
        "oracle: world L keeps every intermediate exactly as the library returned it (pending views of any depth); world F "
        "rebuilds every intermediate freshly (a[...]/a[()] stay aliases).  Both must agree on the status of every step, every "
        "value read, and the final content / lengths / dtype of every variable.  A second, model-based sub-check composes 1-3 "
        "selections and applies every terminal read and write kind against the list-of-rows model.  Non-trivial = a step is "
        "applied to a view of a view, or to a view with a negative / non-unit column step, or writes into a pending view."
        "  Programs include arrays constructed on another array's flat view (same / reversed / strided) and chains of 1-3 producing operations followed by an assignment into the last result.")
ASSUMPTIONS = ["writes to X while a never-materialised selection over X's buffer is live are skipped (counted): that region is "
               "known finding K1, owned by C10",
               "depth <= 8, <= 10 live variables, int64 content (dtype behaviour is C04's)"]

B = st.one_of(st.none(), st.integers(-7, 7))
STEP = st.sampled_from([None, None, 1, -1, 2, -2, 3, -3])
SL = st.tuples(B, B, STEP).map(lambda t: ["s", t[0], t[1], t[2]])
RSEL = st.one_of(SL, SL,
                 st.tuples(st.lists(st.integers(0, 40), max_size=5), st.sampled_from(["list", "int64"])).map(lambda t: ["l", t[0], t[1]]),
                 st.tuples(st.lists(st.booleans(), min_size=1, max_size=6), st.sampled_from([True, True, False])).map(lambda t: ["m", t[0], t[1]]),
                 st.just(["e"]))
RSEL_VIEW = st.one_of(SL, st.tuples(st.lists(st.integers(0, 40), min_size=1, max_size=5), st.just("int64")).map(lambda t: ["l", t[0], t[1]]),
                      st.tuples(st.lists(st.booleans(), min_size=1, max_size=6), st.sampled_from([True, True, False])).map(lambda t: ["m", t[0], t[1]]))
CSEL = st.one_of(st.none(), st.none(), SL, SL, st.tuples(st.integers(-4, 4), st.booleans()).map(lambda t: ["i", t[0], t[1]]))
CSEL_SLICE = st.one_of(st.none(), SL, SL)
VAR = st.one_of(st.sampled_from([-1, -1, -1, -2, -2, 0]), st.integers(0, 60))   # k mod #live; -1 = newest variable
K = st.integers(0, 60)
THR = st.sampled_from([-1, 0, 1001, 2000, 1000])

INDEX = st.tuples(st.just("index"), VAR, RSEL, CSEL).map(list)
INDEX_VIEW = st.tuples(st.just("index"), VAR, RSEL_VIEW, CSEL_SLICE).map(list)
PRODUCERS = [
    st.tuples(st.just("alias"), VAR, st.sampled_from(["...", "()"])).map(list),
    st.tuples(st.just("reflat"), VAR, st.sampled_from(["same", "reversed", "strided"])).map(list),
    st.tuples(st.just("ufunc1"), VAR, st.sampled_from(["neg", "add1", "mul2", "gt", "abs", "square"])).map(list),
    st.tuples(st.just("ufunc2"), VAR, VAR, st.sampled_from(["add", "sub", "max"])).map(list),
    st.tuples(st.just("colvec"), VAR, st.lists(st.integers(-3, 3), min_size=1, max_size=5), st.sampled_from(["left", "right"]), st.sampled_from(["add", "sub"])).map(list),
    st.tuples(st.just("colvecf"), VAR, st.lists(st.sampled_from([float("inf"), float("-inf"), 1e300, 0.1, 1e-300, 3.5, -2.25, 1e10]), min_size=1, max_size=5),
              st.sampled_from(["left", "right"]), st.sampled_from(["add", "sub"])).map(list),
    st.tuples(st.just("cat"), VAR, VAR).map(list),
    st.tuples(st.just("sort"), VAR).map(list),
    st.tuples(st.just("cumsum"), VAR).map(list),
    st.tuples(st.just("accumulate"), VAR, st.sampled_from(["add", "subtract", "bitwise_xor"])).map(list),
    st.tuples(st.just("diff"), VAR, st.sampled_from([1, 1, 2])).map(list),
    st.tuples(st.just("unique"), VAR).map(list),
    st.tuples(st.just("where"), VAR, THR).map(list),
    st.tuples(st.just("where2"), VAR, VAR, THR).map(list),
    st.tuples(st.just("astype"), VAR, st.sampled_from(["float64", "int32", "bool"])).map(list),
    st.tuples(st.just("like"), VAR, st.sampled_from(["zeros_like", "ones_like"])).map(list),
    st.tuples(st.just("subset"), VAR, THR).map(list),
    st.tuples(st.just("rslice"), VAR, st.lists(K, min_size=1, max_size=4), st.lists(K, min_size=1, max_size=4)).map(list),
]
WRITERS = [
    st.tuples(st.just("assign"), VAR, RSEL, CSEL, st.sampled_from(["scalar", "scalar", "column", "ragged", "ragged-lazy", "flat"])).map(list),
    st.tuples(st.just("assign"), VAR, RSEL, CSEL, st.sampled_from(["scalar", "column", "ragged"])).map(list),
    st.tuples(st.just("fill"), VAR, st.sampled_from([0, -5])).map(list),
    st.tuples(st.just("rowwrite"), VAR, K, K, st.sampled_from([-11, 77])).map(list),
    st.tuples(st.just("maskassign"), VAR, THR, st.just(-3)).map(list),
    st.tuples(st.just("assign-from"), VAR, VAR).map(list),
]
OBSERVERS = [
    st.tuples(st.just("rowread"), VAR, K).map(list),
    st.tuples(st.just("rowread"), VAR, K).map(list),
    st.tuples(st.just("cell"), VAR, K, K).map(list),
    st.tuples(st.just("colread"), VAR, RSEL, st.integers(-4, 4)).map(list),
    st.tuples(st.just("reduce"), VAR, st.sampled_from(["sum", "any", "all", "prod", "max", "min", "mean", "argmax"])).map(list),
    st.tuples(st.just("reduce-none"), VAR, st.sampled_from(["sum", "max", "mean"])).map(list),
    st.tuples(st.just("tolist"), VAR).map(list),
    st.tuples(st.just("nonzero"), VAR, THR).map(list),
    st.tuples(st.just("maskselect"), VAR, THR, st.sampled_from(["index", "subset"])).map(list),
    st.tuples(st.just("padded"), VAR, st.sampled_from([0, 9]), st.sampled_from(["left", "right"])).map(list),
    st.tuples(st.just("colsum"), VAR).map(list),
    st.tuples(st.just("colmean"), VAR).map(list),
    st.tuples(st.just("colcounts"), VAR).map(list),
    st.tuples(st.just("getcol"), VAR, K).map(list),
    st.tuples(st.just("meta"), VAR).map(list),
    st.tuples(st.just("iter"), VAR).map(list),
    st.tuples(st.just("equals"), VAR, VAR).map(list),
]
ANY_OP = st.one_of(*PRODUCERS, *WRITERS, *OBSERVERS).map(list)   # .map keeps one_of from flattening the weights below
WRITER = st.one_of(*WRITERS).map(list)
OBSERVER = st.one_of(*OBSERVERS).map(list)


@st.composite
def step_any(draw):
    # explicit weights: Hypothesis flattens nested one_of, which would make the 38-way ANY_OP swamp the index steps
    k = draw(st.integers(0, 8))
    if k == 0:
        return draw(INDEX)
    if k <= 4:
        return draw(INDEX_VIEW)
    if k <= 7:
        return draw(ANY_OP)
    return draw(WRITER)


STEP_ANY = step_any()


def body_program(case, ctx):
    ctx.label(*gen.shape_labels(case["lens"]), "depth:%d" % len(case["steps"]))
    it, _ = run_program(case, "lazy-vs-fresh", ctx)
    ctx.nt(it.nontrivial)


@st.composite
def program_case(draw, tier):
    return {"lens": draw(gen.lengths(tier, min_rows=1, max_rows=5)), "steps": draw(st.lists(STEP_ANY, min_size=2, max_size=8))}


@st.composite
def twin_case(draw, tier):
    """1-2 compounding selections, then every public operation once on the pending view (vs. its fresh twin)"""
    k = draw(st.integers(1, 2))
    steps = []
    for d in range(k):
        s = draw(INDEX_VIEW)
        s[1] = d          # always select from the newest variable
        steps.append(s)
    which = draw(st.integers(0, 3))      # every other time the operation is itself an index expression (index of an index of ...)
    op = draw(INDEX_VIEW) if which == 0 else draw(INDEX) if which == 1 else draw(ANY_OP)
    op = list(op)
    op[1] = k             # applied to the deepest view
    steps.append(op)
    tail = draw(st.lists(OBSERVER, max_size=2))
    return {"lens": draw(gen.lengths(tier, min_rows=1, max_rows=5)), "steps": steps + tail}


PRODUCER = st.one_of(*PRODUCERS).map(list)


@st.composite
def derive_write_case(draw, tier):
    """a chain of 1-3 producing operations, each applied to the newest result (every third chain repeats one operation),
    then an assignment into the last result, then reads: 'assigning into it never alters the array it was derived from'"""
    k = draw(st.integers(1, 3))
    first = list(draw(PRODUCER))
    steps = []
    repeat = draw(st.integers(0, 2)) == 0
    for d in range(k):
        s = list(first) if (repeat or d == 0) else list(draw(PRODUCER))
        s[1] = -1         # the newest variable
        steps.append(s)
    w = list(draw(WRITER))
    w[1] = -1
    steps.append(w)
    return {"lens": draw(gen.lengths(tier, min_rows=1, max_rows=5)), "steps": steps + draw(st.lists(OBSERVER, max_size=2))}


# ---------------------------------------------------------------- model-based view chains

def compose(rows, sels):
    """apply row/col selections successively to the list-of-rows model; None if some selection is refused"""
    cur = rows
    for r, c in sels:
        m = model_index(cur, r, c)
        if m[0] != "rows":
            return None
        cur = m[1]
    return cur


def fit(sel, n):
    from ..prog import fit_rsel
    return fit_rsel(sel, n)


def body_chain(case, ctx):
    lens = case["lens"]
    rows = poscoded(lens)
    ra = ra_from_rows(rows)
    cur_rows, cur = rows, ra
    depth = 0
    stepped = False
    aliases_source = True     # only the whole-array forms are aliases of their operand
    for r, c in case["sels"]:
        r = fit(r, len(cur_rows))
        m = model_index(cur_rows, r, c)
        if m[0] != "rows":
            break
        aliases_source = aliases_source and r[0] == "e" and c is None
        out = lib(lambda: cur[py_sel(r)] if c is None else cur[py_sel(r), py_sel(c)])
        if not out.ok:
            raise Violation("chain:selection-refused", got=out.brief(), sel=[r, c], depth=depth)
        cur, cur_rows = out.value, m[1]
        depth += 1
        stepped = stepped or (c is not None and c[3] not in (None, 1))
    ctx.label(*gen.shape_labels(lens), "chain-depth:%d" % depth, "stepped-columns" if stepped else "unit-columns")
    ctx.nt(depth >= 2 or stepped)
    t = case["terminal"]
    n = len(cur_rows)
    ctx.label("terminal:" + t[0])
    if t[0] == "tolist":
        expect_ragged(lib(lambda: cur), [np.array(x, dtype=np.int64) for x in cur_rows], "chain-content", exp_dtype="int64")
        return
    if t[0] == "index":
        r = fit(t[1], n)
        c02.check_index(cur, cur_rows, r, t[2], "plain" if t[2] is None else "pair", chain=case["sels"])
        expect_ragged(lib(lambda: cur), [np.array(x, dtype=np.int64) for x in cur_rows], "chain-content-after-read", exp_dtype="int64")
        return
    if t[0] == "introw":
        i = t[1] % (2 * n + 2) - n - 1 if n else t[1] % 3 - 1
        c02.check_index(cur, cur_rows, ["i", i, t[2]], t[3], "plain" if t[3] is None else "pair", chain=case["sels"])
        return
    if t[0] == "assign":
        # write into the derived array: it gets the values, the source stays untouched
        from .c03 import addressed, make_value
        r = fit(t[1], n)
        from ..prog import fit_rsel
        r = fit_rsel(t[1], n, norepeat=True)
        clens = [len(x) for x in cur_rows]
        cells, rkind = addressed(clens, r, t[2])
        exp = copy.deepcopy(cur_rows)
        idx = c02.build_index(r, t[2], "plain" if t[2] is None else "pair")
        if cells is None:
            expect_refused(lib(cur.__setitem__, idx, -7), "chain-assign", chain=case["sels"])
        else:
            mv = make_value(t[3], cells, rkind, 1) or make_value("scalar", cells, rkind, 1)
            value, writes, refuse = mv
            out = lib(cur.__setitem__, idx, value)
            if refuse:
                expect_refused(out, "chain-assign-mismatch")
            else:
                if not out.ok:
                    raise Violation("chain-assign:unexpected-refusal", got=out.brief(), index=repr(idx))
                for i, j, v in writes:
                    exp[i][j] = v
        expect_ragged(lib(lambda: cur), [np.array(x, dtype=np.int64) for x in exp], "chain-assign-content", exp_dtype="int64", index=repr(idx))
        if aliases_source:
            ctx.label("alias-of-source")
            expect_ragged(lib(lambda: ra), [np.array(x, dtype=np.int64) for x in exp], "chain-assign-alias-sees-write", exp_dtype="int64")
        else:
            expect_ragged(lib(lambda: ra), [np.array(x, dtype=np.int64) for x in rows], "chain-assign-source-untouched", exp_dtype="int64")
        return
    raise ValueError(t)


SL3 = st.tuples(B, B, st.sampled_from([None, 1, -1, 2, -2, 3, -3])).map(lambda t: ["s", t[0], t[1], t[2]])
CHAIN_R = st.one_of(st.tuples(B, B, st.sampled_from([None, 1, -1, 2, -2])).map(lambda t: ["s", t[0], t[1], t[2]]),
                    st.tuples(st.lists(st.integers(0, 40), min_size=1, max_size=5), st.just("int64")).map(lambda t: ["l", t[0], t[1]]),
                    st.tuples(st.lists(st.booleans(), min_size=1, max_size=6), st.sampled_from([True, True, False])).map(lambda t: ["m", t[0], t[1]]), st.just(["e"]))


@st.composite
def chain_case(draw, tier):
    sels = [[draw(CHAIN_R), draw(st.one_of(st.none(), SL3, SL3))] for _ in range(draw(st.integers(1, 3)))]
    terminal = draw(st.one_of(
        st.just(["tolist"]),
        st.tuples(st.just("index"), RSEL, st.one_of(st.none(), SL3, st.tuples(st.integers(-4, 4), st.booleans()).map(lambda t: ["i", t[0], t[1]]))).map(list),
        st.tuples(st.just("index"), st.just(["e"]), st.tuples(st.integers(-4, 4), st.booleans()).map(lambda t: ["i", t[0], t[1]])).map(list),
        st.tuples(st.just("introw"), K, st.booleans(), st.one_of(st.none(), SL3, st.tuples(st.integers(-4, 4), st.booleans()).map(lambda t: ["i", t[0], t[1]]))).map(list),
        st.tuples(st.just("assign"), RSEL, st.one_of(st.none(), SL3, st.tuples(st.integers(-4, 4), st.booleans()).map(lambda t: ["i", t[0], t[1]])),
                  st.sampled_from(["scalar", "column", "ragged", "flat-array", "ragged-bad-longer"])).map(list)))
    return {"lens": draw(gen.lengths(tier, min_rows=1, max_rows=5)), "sels": sels, "terminal": terminal}


SUBCHECKS = [
    SubCheck("programs", body_program, program_case, quick=9000, thorough=800000, shards_quick=8,
             doc="random straight-line programs (depth 1-8), lazy world vs freshly-rebuilt world"),
    SubCheck("programs-coverage-guided", body_program, program_case, kind="atheris", quick=0, thorough=1200000, shards_thorough=16,
             doc="thorough only: atheris/libFuzzer drives the same program strategy through Hypothesis' fuzz_one_input, coverage of "
                 "npstructures as feedback (16 campaigns, fresh corpus each, removed afterwards); evaluations = programs actually executed"),
    SubCheck("twin", body_program, twin_case, quick=9000, thorough=600000, shards_quick=4,
             doc="1-2 compounding selections, then one operation of the full vocabulary on the pending view vs its fresh twin"),
    SubCheck("derive-then-assign", body_program, derive_write_case, quick=6000, thorough=500000, shards_quick=4,
             doc="1-3 producing operations chained on the newest result (often the same operation repeated), an assignment into the last "
                 "result, reads; lazy world vs freshly-rebuilt world incl. the final content of every array of the chain"),
    SubCheck("view-chain-model", body_chain, chain_case, quick=9000, thorough=600000, shards_quick=4,
             doc="1-3 compounding row/column selections, then every terminal read / integer row / cell / write, against the list-of-rows model"),
]
