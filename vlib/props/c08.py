"""C08  Structural array functions preserve row structure and element order."""
import numpy as np
from hypothesis import strategies as st

from .. import gen
from ..core import SubCheck, Violation
from ..oracle import (LAYOUTS, layout, LAZY_CHOICES, lib, lib_uninitialised, np_rows, np_flat, lazy_ra, mk_rows, expect_ragged, expect_refused, expect_unchanged, expect_array,
                      jsonable, arrays_equal)

RULE = ("Cases per function: concatenate along rows (1-4 operands, zero-row operands included) and along columns (equal row "
        "counts); zeros/ones/empty_like with optional dtype; as_padded_matrix(side, fill); nonzero (method and np.nonzero); "
        "np.where(mask, x, y) with ragged/scalar y; subset(mask) and ra[mask]; ragged_slice / NPSArray[starts:ends] on ragged, "
        "1-D and 2-D inputs with per-row starts in [0, len] and ends in [start, len], negative, or omitted.  RaggedArray "
        "operands are fresh or pending views.  Oracle = explicit per-row Python/numpy reference.  Non-trivial = some operand, "
        "row, window or mask row is empty or all-false."
        "  2-D inputs of ragged_slice in C / F / transposed / strided / reversed-stride layout.")
ASSUMPTIONS = ["np.where with a scalar x is refused by the library and outside the property's 'operands' shape' domain: not asserted",
               "as_padded_matrix is asserted on arrays with at least one element"]

LZ = st.sampled_from(LAZY_CHOICES)


def labels(ctx, lens, *more):
    ctx.label(*gen.shape_labels(lens), *more)


# ---------------------------------------------------------------- concatenate

def body_concat0(case, ctx):
    parts = case["parts"]
    rows_all, ras, srcs = [], [], []
    for p, z in zip(parts, case["lz"]):
        rows = np_rows(p)
        rows_all.extend(rows)
        ras.append(lazy_ra(rows, p["dt"], z))
        srcs.append((rows, p["dt"]))
    ctx.label("k:%d" % len(parts), "zero-row-operand" if any(len(p["lens"]) == 0 for p in parts) else "all-have-rows",
              "mixed-dtype" if len({p["dt"] for p in parts}) > 1 else "same-dtype")
    ctx.nt(any(len(p["lens"]) == 0 or 0 in p["lens"] for p in parts))
    exp_dt = np.concatenate([np_flat(p) for p in parts]).dtype
    kw = {} if case["axis"] is None else {"axis": case["axis"]}
    got = lib(lambda: np.concatenate(ras, **kw))
    expect_ragged(got, [r.astype(exp_dt) for r in rows_all], "concatenate-rows", exp_dtype=exp_dt)
    for ra, (rows, dt) in zip(ras, srcs):
        expect_unchanged(ra, rows, dt, "concatenate-operand")


@st.composite
def concat0_case(draw, tier):
    k = draw(st.integers(1, 4))
    same = draw(st.booleans())
    dt0 = draw(st.sampled_from(gen.ALL_DT))
    parts = [draw(gen.ragged(tier, dts=[dt0] if same else gen.ALL_DT, max_rows=4, wide=True)) for _ in range(k)]
    return {"parts": parts, "lz": [draw(LZ) for _ in range(k)], "axis": draw(st.sampled_from([0, None]))}


def body_concat1(case, ctx):
    parts = case["parts"]
    n = len(parts[0]["lens"])
    allrows = [np_rows(p) for p in parts]
    ras = [lazy_ra(r, p["dt"], z) for r, p, z in zip(allrows, parts, case["lz"])]
    exp_dt = np.result_type(*[p["dt"] for p in parts])
    exp = [np.concatenate([rs[i] for rs in allrows]).astype(exp_dt) for i in range(n)]
    ctx.label("k:%d" % len(parts), "zero-rows" if n == 0 else "rows", "mixed-dtype" if len({p["dt"] for p in parts}) > 1 else "same-dtype")
    ctx.nt(any(0 in p["lens"] for p in parts) or len({p["dt"] for p in parts}) > 1)
    got = lib(lambda: np.concatenate(ras, axis=case["axis"]))
    expect_ragged(got, exp, "concatenate-columns", exp_dtype=exp_dt)
    for ra, rows, p in zip(ras, allrows, parts):
        expect_unchanged(ra, rows, p["dt"], "concatenate-operand")


@st.composite
def concat1_case(draw, tier):
    k = draw(st.integers(1, 4))
    n = draw(st.integers(0, 5))
    dt0 = draw(st.sampled_from(gen.ALL_DT))
    same = draw(st.booleans())
    parts = []
    for _ in range(k):
        dt = dt0 if same else draw(st.sampled_from(gen.ALL_DT))
        lens = draw(st.lists(st.sampled_from([0, 0, 1, 2, 3]), min_size=n, max_size=n))
        parts.append({"lens": lens, "dt": dt, "vals": draw(gen.flat_values(dt, sum(lens), specials=False))})
    return {"parts": parts, "lz": [draw(LZ) for _ in range(k)], "axis": draw(st.sampled_from([-1, 1]))}


# ---------------------------------------------------------------- *_like

def body_like(case, ctx):
    a = case["a"]
    rows = np_rows(a)
    ra = lazy_ra(rows, a["dt"], case["lz"])
    f = getattr(np, case["f"])
    dt = case["dtype"]
    labels(ctx, a["lens"], "f:" + case["f"], "dtype-given" if dt else "dtype-default")
    ctx.nt(0 in a["lens"] or len(a["lens"]) == 0)
    glib = lib_uninitialised if case["f"] == "empty_like" else lib
    got = glib(lambda: f(ra, dtype=dt) if dt else f(ra))
    from npstructures import RaggedArray
    if not got.ok or not isinstance(got.value, RaggedArray):
        raise Violation("like:result", got=got.brief(), f=case["f"])
    res = got.value
    r = glib(lambda: ([int(x) for x in res.lengths], len(res), str(res.dtype), [np.asarray(x) for x in res]))
    if not r.ok:
        raise Violation("like:unreadable", got=r.brief())
    lens, n, rdt, rrows = r.value
    if lens != a["lens"] or n != len(a["lens"]) or [len(x) for x in rrows] != a["lens"]:
        raise Violation("like:row-lengths", expected=a["lens"], got=lens)
    if rdt != str(np.dtype(dt or a["dt"])):
        raise Violation("like:dtype", expected=str(np.dtype(dt or a["dt"])), got=rdt)
    if case["f"] != "empty_like":
        fill = 0 if case["f"] == "zeros_like" else 1
        if any(np.any(x != fill) for x in rrows):
            raise Violation("like:fill", got=jsonable([x.tolist() for x in rrows]))
    expect_unchanged(ra, rows, a["dt"], "like-operand")


@st.composite
def like_case(draw, tier):
    return {"a": draw(gen.ragged(tier)), "f": draw(st.sampled_from(["zeros_like", "ones_like", "empty_like"])),
            "dtype": draw(st.sampled_from([None, None, "float32", "bool", "int8", "uint64"])), "lz": draw(LZ)}


# ---------------------------------------------------------------- padded matrix

def body_pad(case, ctx):
    a, side, fill = case["a"], case["side"], case["fill"]
    rows = np_rows(a)
    lens = a["lens"]
    ra = lazy_ra(rows, a["dt"], case["lz"])
    L = max(lens)
    exp = np.full((len(lens), L), fill, dtype=a["dt"])
    for i, r in enumerate(rows):
        if side == "right":
            exp[i, :len(r)] = r
        else:
            exp[i, L - len(r):] = r
    labels(ctx, lens, "side:" + str(side), "lazy" if case["lz"] else "fresh")
    ctx.nt(0 in lens)
    kw = {}
    if side != "default":
        kw["side"] = side
    else:
        side = "right"
    if case["pass_fill"]:
        kw["fill_value"] = fill
    elif fill != 0:
        kw["fill_value"] = fill
    got = lib(lambda: ra.as_padded_matrix(**kw))
    if case["side"] == "default":
        exp = np.full((len(lens), L), fill, dtype=a["dt"])
        for i, r in enumerate(rows):
            exp[i, :len(r)] = r
    expect_array(got, exp, "padded-matrix", side=case["side"], fill=fill)
    expect_unchanged(ra, rows, a["dt"], "pad-operand")


@st.composite
def pad_case(draw, tier):
    a = draw(gen.ragged(tier, dts=["int64", "uint8", "float64", "bool", "int16", "float32"], min_rows=1, wide=True))
    if sum(a["lens"]) == 0:
        a = {"lens": a["lens"] + [2], "dt": a["dt"], "vals": draw(gen.flat_values(a["dt"], 2))}
    return {"a": a, "side": draw(st.sampled_from(["left", "right", "default"])), "fill": draw(st.sampled_from([0, 0, 1, 7])),
            "pass_fill": draw(st.booleans()), "lz": draw(LZ)}


# ---------------------------------------------------------------- nonzero

def body_nonzero(case, ctx):
    a = case["a"]
    rows = np_rows(a)
    ra = lazy_ra(rows, a["dt"], case["lz"])
    er, ec = [], []
    for i, r in enumerate(rows):
        for j, v in enumerate(r):
            if v != 0:
                er.append(i)
                ec.append(j)
    labels(ctx, a["lens"], "spell:" + case["spell"])
    ctx.nt(gen.has_mixed_empty(a["lens"]) and len(er) > 0)
    got = lib(lambda: np.nonzero(ra) if case["spell"] == "np" else ra.nonzero())
    if not got.ok or not isinstance(got.value, tuple) or len(got.value) != 2:
        raise Violation("nonzero:result", got=got.brief())
    gr, gc = (np.asarray(x) for x in got.value)
    if gr.tolist() != er or gc.tolist() != ec:
        raise Violation("nonzero:coordinates", expected=[er, ec], got=[gr.tolist(), gc.tolist()])
    expect_unchanged(ra, rows, a["dt"], "nonzero-operand")


@st.composite
def nonzero_case(draw, tier):
    return {"a": draw(gen.ragged(tier, dup=draw(st.booleans()), wide=True)), "spell": draw(st.sampled_from(["np", "method"])), "lz": draw(LZ)}


# ---------------------------------------------------------------- where / subset / mask indexing

def body_where(case, ctx):
    lens, mask = case["lens"], case["mask"]
    tot = sum(lens)
    x = {"lens": lens, "dt": case["xdt"], "vals": case["xvals"]}
    xrows = np_rows(x)
    xra = lazy_ra(xrows, x["dt"], case["lz"][0])
    mra = lazy_ra(mk_rows(lens, mask), "bool", case["lz"][1])
    if case["y"][0] == "ragged":
        y = {"lens": lens, "dt": case["y"][1], "vals": case["y"][2]}
        yobj = lazy_ra(np_rows(y), y["dt"], case["lz"][2])
        yflat = np_flat(y)
    else:
        yobj = yflat = case["y"][1]
    e = lib(lambda: np.where(np.array(mask, dtype=bool) if tot else np.zeros(0, bool), np_flat(x), yflat))
    if not e.ok:
        ctx.label("numpy-refuses-not-asserted")   # e.g. a Python scalar out of bounds for x's dtype
        return
    exp = e.value
    labels(ctx, lens, "y:" + case["y"][0], "all-false" if not any(mask) else "all-true" if all(mask) else "mixed")
    ctx.nt(0 in lens or not any(mask))
    got = lib(lambda: np.where(mra, xra, yobj))
    exp_rows, c = [], 0
    for l in lens:
        exp_rows.append(exp[c:c + l])
        c += l
    expect_ragged(got, exp_rows, "where", exp_dtype=exp.dtype)
    expect_unchanged(xra, xrows, x["dt"], "where-x")
    expect_unchanged(mra, mk_rows(lens, mask), "bool", "where-mask")


@st.composite
def where_case(draw, tier):
    lens = draw(gen.lengths(tier))
    tot = sum(lens)
    xdt = draw(st.sampled_from(gen.ALL_DT))
    ydt = draw(st.sampled_from([xdt, xdt] + gen.ALL_DT))
    y = draw(st.one_of(st.tuples(st.just("ragged"), st.just(ydt), gen.flat_values(ydt, tot)).map(list),
                       st.sampled_from([0, 5, -1, 2.5, True]).map(lambda v: ["scalar", v])))
    mask = draw(st.one_of(st.lists(st.booleans(), min_size=tot, max_size=tot), st.just([False] * tot), st.just([True] * tot)))
    return {"lens": lens, "mask": mask, "xdt": xdt, "xvals": draw(gen.flat_values(xdt, tot)), "y": y,
            "lz": [draw(LZ), draw(LZ), draw(LZ)]}


def body_mask_select(case, ctx):
    a, mask, how = case["a"], case["mask"], case["how"]
    lens = a["lens"]
    rows = np_rows(a)
    mrows = mk_rows(lens, mask)
    ra = lazy_ra(rows, a["dt"], case["lz"][0])
    mra = lazy_ra(mrows, "bool", case["lz"][1])
    labels(ctx, lens, "how:" + how, "all-false" if not any(mask) else "all-true" if all(mask) else "mixed")
    ctx.nt(0 in lens or any(not any(m) for m in mrows))
    if how == "subset":
        exp = [r[np.array(m, dtype=bool)] if len(r) else r for r, m in zip(rows, mrows)]
        got = lib(lambda: ra.subset(mra))
        expect_ragged(got, exp, "subset", exp_dtype=a["dt"])
    else:
        flat = np_flat(a)
        exp = flat[np.array(mask, dtype=bool)] if len(mask) else flat[:0]
        got = lib(lambda: ra[mra])
        expect_array(got, exp, "mask-index")
    expect_unchanged(ra, rows, a["dt"], "mask-select-operand")
    expect_unchanged(mra, mrows, "bool", "mask-select-mask")


@st.composite
def mask_select_case(draw, tier):
    a = draw(gen.ragged(tier, wide=True))
    tot = sum(a["lens"])
    mask = draw(st.one_of(st.lists(st.booleans(), min_size=tot, max_size=tot), st.just([False] * tot), st.just([True] * tot)))
    return {"a": a, "mask": mask, "how": draw(st.sampled_from(["subset", "index"])), "lz": [draw(LZ), draw(LZ)]}


# ---------------------------------------------------------------- ragged_slice

def window(draw, l):
    s = draw(st.integers(0, l))
    kind = draw(st.integers(0, 3))
    if kind == 0 and l > 0:
        e = draw(st.integers(-l, -1))
    elif kind == 1:
        e = l
    else:
        e = draw(st.integers(s, l))
    return s, e


def body_rslice(case, ctx):
    from npstructures import ragged_slice
    from npstructures.mixin import NPSArray
    src, starts, ends = case["src"], case["starts"], case["ends"]
    use_s, use_e = case["use_starts"], case["use_ends"]
    ctx.label("src:" + src[0], "starts" if use_s else "no-starts", "ends" if use_e else "no-ends",
              "negative-end" if use_e and any(e < 0 for e in ends) else "nonneg-ends", "via:" + case["via"])
    bd = case.get("bounds_as", "int64")
    ctx.label("bounds:" + bd)
    conv = (lambda v: list(v)) if bd == "list" and case["via"] != "nps" and len(starts) else (lambda v: np.array(v, dtype="int64" if bd == "list" else bd))
    s_arr = conv(starts) if use_s else None
    e_arr = conv(ends) if use_e else None
    if src[0] == "ragged":
        a = src[1]
        rows = np_rows(a)
        obj = lazy_ra(rows, a["dt"], case["lz"])
        base = rows
        dt = a["dt"]
    elif src[0] == "1d":
        arr = np.array(src[2], dtype=src[1])
        base = [arr] * len(starts)
        obj = arr
        dt = src[1]
    else:
        arr = layout(np.array(src[3], dtype=src[1]).reshape(src[2][0], src[2][1]), case.get("layout", "C"))
        ctx.label("layout:" + case.get("layout", "C"))
        base = list(arr)
        obj = arr
        dt = src[1]
    exp = [r[(s if use_s else None):(e if use_e else None)] for r, s, e in zip(base, starts, ends)]
    ctx.nt(any(len(x) == 0 for x in exp) or any(len(r) == 0 for r in base))
    if case["via"] == "nps":
        view = obj.view(NPSArray)
        got = lib(lambda: view[s_arr:e_arr])
    else:
        got = lib(lambda: ragged_slice(obj, s_arr, e_arr))
    expect_ragged(got, exp, "ragged_slice", exp_dtype=dt, starts=starts, ends=ends)
    if src[0] == "ragged":
        expect_unchanged(obj, rows, dt, "ragged_slice-operand")


@st.composite
def rslice_case(draw, tier):
    kind = draw(st.sampled_from(["ragged", "ragged", "1d", "2d"]))
    dt = draw(st.sampled_from(["int64", "int8", "float64", "bool", "uint16"]))
    via = "fn"
    if kind == "ragged":
        a = draw(gen.ragged(tier, dts=[dt], wide=True))
        lens = a["lens"]
        src = ["ragged", a]
    elif kind == "1d":
        n = draw(st.integers(1, 9))
        k = draw(st.integers(0, 5))
        lens = [n] * k
        src = ["1d", dt, draw(gen.flat_values(dt, n))]
        via = draw(st.sampled_from(["fn", "nps"]))
    else:
        r = draw(st.integers(0, 5))
        w = draw(st.integers(1, 6))
        lens = [w] * r
        src = ["2d", dt, [r, w], draw(gen.flat_values(dt, r * w))]
        via = draw(st.sampled_from(["fn", "nps"]))
    ws = [window(draw, l) for l in lens]
    use_s = draw(st.sampled_from([True, True, True, False]))
    use_e = draw(st.sampled_from([True, True, True, False]))
    if via == "nps" and not (use_s and use_e):
        use_s = use_e = True
    if kind == "1d":
        use_s = True   # with a 1-D input the windows are defined by the start vector; omitting it is not claimed
    return {"src": src, "starts": [w[0] for w in ws], "ends": [w[1] for w in ws], "use_starts": use_s, "use_ends": use_e,
            "via": via, "lz": draw(LZ), "layout": draw(st.sampled_from(LAYOUTS)), "bounds_as": draw(st.sampled_from(["int64", "int64", "int32", "intp"]))}   # Python lists are not claimed (the library adds them to array offsets)


def body_fn_sequence(case, ctx):
    """2-5 structural functions applied one after the other to the SAME array (none of them writes): every result is
    checked against the per-row reference and the array must be unchanged afterwards"""
    from npstructures import ragged_slice
    a = case["a"]
    rows = np_rows(a)
    lens = a["lens"]
    ra = lazy_ra(rows, a["dt"], case["lz"])
    other = lazy_ra(rows, a["dt"], 0)           # a second array with the same rows (may share nothing with ra)
    L = max(lens)
    ctx.label(*gen.shape_labels(lens), "dt:" + a["dt"], "steps:%d" % len(case["steps"]))
    ctx.nt(len(case["steps"]) >= 2 and 0 in lens)
    for k, st_ in enumerate(case["steps"]):
        ctx.label("seq:" + st_[0])
        info = dict(step=k, op=st_, before=case["steps"][:k])
        if st_[0] == "pad":
            exp = np.zeros((len(lens), L), dtype=a["dt"])
            for i, r in enumerate(rows):
                if st_[1] == "right":
                    exp[i, :len(r)] = r
                else:
                    exp[i, L - len(r):] = r
            expect_array(lib(lambda: ra.as_padded_matrix(side=st_[1])), exp, "seq-padded", **info)
        elif st_[0] == "rslice":
            starts = [st_[1] % (l + 1) for l in lens]
            ends = [s_ + (st_[2] % (l - s_ + 1)) for s_, l in zip(starts, lens)]
            exp = [r[s_:e] for r, s_, e in zip(rows, starts, ends)]
            expect_ragged(lib(lambda: ragged_slice(ra, np.array(starts, dtype=np.int64), np.array(ends, dtype=np.int64))), exp, "seq-ragged_slice", exp_dtype=a["dt"], **info)
        elif st_[0] == "concat":
            exp = [np.concatenate([r, r]) for r in rows] if st_[1] == "cols" else rows + rows
            expect_ragged(lib(lambda: np.concatenate([ra, other], axis=-1 if st_[1] == "cols" else 0)), exp, "seq-concatenate", exp_dtype=a["dt"], **info)
        elif st_[0] == "nonzero":
            er = [i for i, r in enumerate(rows) for v in r if v != 0]
            ec = [j for r in rows for j, v in enumerate(r) if v != 0]
            g = lib(lambda: np.nonzero(ra))
            if not g.ok or np.asarray(g.value[0]).tolist() != er or np.asarray(g.value[1]).tolist() != ec:
                raise Violation("seq-nonzero", expected=[er, ec], got=g.brief(), **info)
        elif st_[0] == "like":
            g = lib(lambda: np.zeros_like(ra))
            expect_ragged(g, [np.zeros(len(r), dtype=a["dt"]) for r in rows], "seq-zeros_like", exp_dtype=a["dt"], **info)
        elif st_[0] == "subset":
            m = [r != 0 for r in rows]
            mra = lazy_ra(m, "bool", 0)
            expect_ragged(lib(lambda: ra.subset(mra)), [r[mm] for r, mm in zip(rows, m)], "seq-subset", exp_dtype=a["dt"], **info)
        elif st_[0] == "colsum-read":
            lib(lambda: ra.sum(axis=0))
        expect_unchanged(ra, rows, a["dt"], "seq-array-after-" + st_[0], **info)


@st.composite
def fn_sequence_case(draw, tier):
    a = draw(gen.ragged(tier, dts=["int64", "uint8", "float64", "bool", "int16"], min_rows=1, specials=False))
    if sum(a["lens"]) == 0:
        a = {"lens": a["lens"] + [2], "dt": a["dt"], "vals": draw(gen.flat_values(a["dt"], 2, specials=False))}
    step = st.one_of(st.tuples(st.just("pad"), st.sampled_from(["left", "right", "left"])).map(list),
                     st.tuples(st.just("rslice"), st.integers(0, 50), st.integers(0, 50)).map(list),
                     st.tuples(st.just("concat"), st.sampled_from(["rows", "cols"])).map(list),
                     st.sampled_from([["nonzero"], ["like"], ["subset"], ["colsum-read"]]))
    return {"a": a, "steps": draw(st.lists(step, min_size=2, max_size=5)), "lz": draw(LZ)}


SUBCHECKS = [
    SubCheck("concatenate-rows", body_concat0, concat0_case, quick=5000, thorough=400000, shards_quick=3,
             doc="np.concatenate axis 0 / default of 1-4 arrays (zero-row operands, mixed dtypes, pending views)"),
    SubCheck("concatenate-columns", body_concat1, concat1_case, quick=4000, thorough=300000, shards_quick=2,
             doc="np.concatenate axis -1 / 1 of 1-3 arrays with equal row counts joins corresponding rows"),
    SubCheck("like", body_like, like_case, quick=3000, thorough=200000, shards_quick=1,
             doc="zeros_like / ones_like / empty_like keep the row lengths; dtype default or requested"),
    SubCheck("padded-matrix", body_pad, pad_case, quick=4000, thorough=300000, shards_quick=2,
             doc="as_padded_matrix(fill_value, side) pads each row to the longest row on the chosen side"),
    SubCheck("nonzero", body_nonzero, nonzero_case, quick=3000, thorough=200000, shards_quick=1,
             doc="(row, column) coordinates of non-zero cells in row-major order, both spellings"),
    SubCheck("where", body_where, where_case, quick=4000, thorough=300000, shards_quick=2,
             doc="np.where(ragged mask, ragged x, ragged or scalar y) picks cell by cell"),
    SubCheck("mask-select", body_mask_select, mask_select_case, quick=4000, thorough=300000, shards_quick=2,
             doc="subset(mask) keeps per row the cells whose mask is true; ra[mask] the same cells flat in row-major order"),
    SubCheck("function-sequence", body_fn_sequence, fn_sequence_case, quick=5000, thorough=300000, shards_quick=3,
             doc="2-5 structural functions (padded matrix left/right, ragged_slice, concatenate rows/columns, nonzero, zeros_like, "
                 "subset) applied one after the other to the SAME array, each against its reference; array unchanged after each"),
    SubCheck("ragged-slice", body_rslice, rslice_case, quick=6000, thorough=500000, shards_quick=3,
             doc="ragged_slice / NPSArray[starts:ends] on ragged, 1-D and 2-D inputs; negative and omitted ends"),
]
