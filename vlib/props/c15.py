"""C15  Indexing a run-length array equals indexing the dense array."""
import itertools

import numpy as np
from hypothesis import strategies as st

from .. import gen, rl
from ..core import SubCheck, Violation
from ..oracle import lib, jsonable, arrays_equal, same_scalar, expect_array

RULE = ("Cases = (encoded array as in C14, index) with index in {int in [-n, n) (Python / numpy), int list / array (negatives, "
        "repeats, empty), dense bool mask (array or list), run-length-encoded bool mask (incl. all-false / all-true), slice with "
        "start/stop in None or [-n-3, n+3] and step in None, +-1, +-2, +-3, +-5, +-n, pair of start/stop vectors (0-5 non-empty "
        "windows)}.  Oracle = a[index] on the dense array; result kind scalar / dense array / RunLengthArray / ragged run-length "
        "array (decoded row by row).  Non-trivial = a slice bound outside [-n, n], a negative or non-unit step, or an index "
        "landing on a run boundary."
        "  Masks also derived by the library itself by comparing a run-length array (neighbouring runs share a truth value).")
ASSUMPTIONS = ["out-of-range integer indices are not claimed by the property and not asserted"]


def base(case, ctx):
    a = rl.dense(case["dt"], case["runs"])
    ctx.label("dt:" + case["dt"])
    x = rl.encode(a)
    pre = case.get("pre")
    if pre is not None and len(a[slice(*pre)]) >= 1:
        # the indexed array is itself the result of an earlier slice (any step): indexing is closed under indexing
        got = lib(lambda: x[slice(*pre)])
        if not got.ok:
            raise Violation("pre-slice:unexpected-refusal", got=got.brief(), pre=pre)
        x, a = got.value, a[slice(*pre)]
        ctx.label("source:slice-result", "pre-step:%s" % pre[2])
    return a, x, set(rl.run_structure(a))


def body_int(case, ctx):
    a, x, bounds = base(case, ctx)
    n = len(a)
    i = case["i"] % (2 * n) - n
    pos = i % n
    ctx.label("negative" if i < 0 else "nonneg", "np-int" if case["np"] else "py-int")
    ctx.nt(pos in bounds or pos + 1 in bounds or i < 0)
    key = np.int64(i) if case["np"] else i
    form = case.get("form", "plain")
    ctx.label("form:" + form)
    key = {"plain": key, "tuple1": (key,), "ell-i": (Ellipsis, key), "i-ell": (key, Ellipsis)}[form]
    got = lib(lambda: x[key])
    if not got.ok:
        raise Violation("int-index:unexpected-refusal", i=i, got=got.brief(), form=form)
    v = got.value
    conv = lib(lambda: np.asarray(v))
    if (isinstance(v, np.ndarray) and v.ndim != 0) or not conv.ok or conv.value.size != 1 or conv.value.dtype == object:
        raise Violation("int-index:result-kind", i=i, got=got.brief(), form=form)
    if not same_scalar(np.asarray(v).item(), a[i].item()) or np.asarray(v).dtype != a.dtype:
        raise Violation("int-index:value", i=i, expected=jsonable(a[i]), got=jsonable(v))


def body_list(case, ctx):
    a, x, bounds = base(case, ctx)
    n = len(a)
    idx = [k % (2 * n) - n for k in case["idx"]]
    ctx.label("as:" + case["as"], "empty" if not idx else "has-negative" if any(k < 0 for k in idx) else "nonneg")
    ctx.nt(any((k % n) in bounds for k in idx))
    obj = list(idx) if case["as"] == "list" else np.array(idx, dtype=case["as"])
    exp = a[np.array(idx, dtype=np.int64)]
    sh = case.get("shape")
    if sh and len(idx) >= 2 and len(idx) % 2 == 0:
        # the same positions as a 2-D index (nested list / 2-D array): the result has the index's shape, as in numpy
        shape = (2, len(idx) // 2) if sh == "2xk" else (len(idx) // 2, 2)
        ctx.label("index-shape:" + sh)
        obj = np.array(idx, dtype=np.int64 if case["as"] == "list" else case["as"]).reshape(shape)
        exp = exp.reshape(shape)
        if case["as"] == "list":
            obj = obj.tolist()
    ctx.label("more-entries-than-runs" if len(idx) > rl.n_runs(a) else "fewer-entries-than-runs")
    expect_array(lib(lambda: x[obj]), exp, "list-index", idx=idx, shape=sh)


def body_mask(case, ctx):
    a, x, bounds = base(case, ctx)
    n = len(a)
    kind = case["as"]
    if kind == "rl-derived":
        # a mask the library itself derives by comparing a run-length array: neighbouring runs may share a truth value
        src = np.resize(rl.dense("int8", case["msrc"]), n)
        t = int(src[case["t"] % n])
        der = lib(lambda: rl.encode(src) > t if case["t"] % 2 else rl.encode(src) != t)
        m = (src > t) if case["t"] % 2 else (src != t)
        if not der.ok:
            raise Violation("rl-derived-mask:refused", got=der.brief())
    else:
        m = np.resize(rl.dense("bool", case["mask"]), n)
    ctx.label("mask:" + kind, "all-false" if not m.any() else "all-true" if m.all() else "mixed")
    ctx.nt(bool(m.any()) and not bool(m.all()))
    exp = a[m]
    if kind == "rl":
        got = lib(lambda: x[rl.encode(m)])
        rl.expect_rl(got, exp, "rl-mask", strict=False, mask=m.tolist())
    elif kind == "rl-derived":
        rl.expect_rl(lib(lambda: der.value), m, "rl-derived-mask", strict=False)
        got = lib(lambda: x[der.value])
        rl.expect_rl(got, exp, "rl-derived-mask-selection", strict=False, mask=m.tolist())
    else:
        obj = m if kind == "array" else m.tolist()
        expect_array(lib(lambda: x[obj]), exp, "dense-mask", mask=m.tolist())


def check_slice(a, x, sl, ctx=None, form="plain"):
    s = slice(*sl)
    exp = a[s]
    n = len(a)
    if ctx is not None:
        oob = any(b is not None and abs(b) > n for b in sl[:2])
        step = 1 if sl[2] is None else sl[2]
        ctx.label("oob-bound" if oob else "in-range", "neg-step" if step < 0 else "pos-step", "wide-step" if abs(step) > 1 else "unit-step",
                  "empty-result" if len(exp) == 0 else "nonempty")
        ctx.nt(oob or step != 1)
    key = {"plain": s, "tuple1": (s,), "ell-i": (Ellipsis, s), "i-ell": (s, Ellipsis)}[form]
    rl.expect_rl(lib(lambda: x[key]), exp, "slice", strict=sl[2] is not None and abs(sl[2]) != 1, slice=list(sl), form=form)


def body_slice(case, ctx):
    a, x, bounds = base(case, ctx)
    ctx.label("form:" + case.get("form", "plain"))
    check_slice(a, x, case["s"], ctx, case.get("form", "plain"))
    for whole in (Ellipsis, ()):      # the whole-array forms give the array itself
        rl.expect_rl(lib(lambda: x[whole]), a, "whole-array-form", strict=True)
    rl.expect_rl(lib(lambda: x), a, "source-after", strict=True)


def body_windows(case, ctx):
    from npstructures import RunLengthRaggedArray
    a, x, bounds = base(case, ctx)
    n = len(a)
    ws = []
    for s, l in case["w"]:
        s = s % n
        e = s + 1 + l % (n - s)
        ws.append((s, e))
    ctx.label("k:%d" % len(ws))
    ctx.nt(any(s in bounds or e in bounds for s, e in ws))
    st_ = np.array([w[0] for w in ws], dtype=np.int64)
    en = np.array([w[1] for w in ws], dtype=np.int64)
    got = lib(lambda: x[st_:en])
    if not got.ok:
        raise Violation("windows:unexpected-refusal", got=got.brief(), windows=ws)
    if not isinstance(got.value, RunLengthRaggedArray):
        raise Violation("windows:result-kind", got=got.brief())
    rows = lib(lambda: [np.asarray(r) for r in got.value.to_array()])
    if not rows.ok:
        raise Violation("windows:undecodable", got=rows.brief(), windows=ws)
    exp = [a[s:e] for s, e in ws]
    if len(rows.value) != len(exp) or not all(g.shape == e.shape and arrays_equal(g, e) for g, e in zip(rows.value, exp)):
        raise Violation("windows:values", expected=jsonable([e.tolist() for e in exp]), got=jsonable([g.tolist() for g in rows.value]), windows=ws)
    if exp and any(g.dtype != a.dtype for g in rows.value):
        raise Violation("windows:dtype", got=str(rows.value[0].dtype))


DT = st.sampled_from(rl.RL_DT)


@st.composite
def idx_case(draw, tier, kind):
    dt = draw(DT)
    runs = draw(rl.runs(dt, tier))
    n = sum(l for _, l in runs)
    case = {"dt": dt, "runs": runs}
    if draw(st.integers(0, 3)) == 0:
        case["pre"] = [draw(gen.bound(n)), draw(gen.bound(n)), draw(st.sampled_from([None, 1, -1, 2, -2, 3]))]
        n = max(len(range(*slice(*case["pre"]).indices(n))), 1)
    if kind == "int":
        case["i"] = draw(st.integers(0, 10**6))
        case["np"] = draw(st.booleans())
        case["form"] = draw(st.sampled_from(["plain", "plain", "tuple1", "ell-i", "i-ell"]))
    elif kind == "list":
        case["idx"] = draw(st.one_of(st.lists(st.integers(0, 10**6), max_size=8), st.lists(st.integers(0, 10**6), min_size=4, max_size=24)))
        case["as"] = draw(st.sampled_from(["list", "int64", "int64", "int32", "intp"]))
        case["shape"] = draw(st.sampled_from([None, None, "2xk", "kx2"]))
    elif kind == "mask":
        case["mask"] = draw(st.one_of(rl.runs("bool", tier), st.just([[False, 1]]), st.just([[True, 1]])))
        case["as"] = draw(st.sampled_from(["array", "list", "rl", "rl", "rl-derived"]))
        if case["as"] == "rl-derived":
            case["msrc"] = draw(rl.runs("int8", tier))
            case["t"] = draw(st.integers(0, 1000))
    elif kind == "slice":
        case["s"] = [draw(gen.bound(n)), draw(gen.bound(n)), draw(st.sampled_from([None, None, 1, -1, 2, -2, 3, -3, 5, -5, n, -n]))]
        case["form"] = draw(st.sampled_from(["plain", "plain", "plain", "tuple1", "ell-i", "i-ell"]))
    else:
        case["w"] = draw(st.lists(st.tuples(st.integers(0, 10**6), st.integers(0, 10**6)).map(list), max_size=5))
    return case


# ---------------------------------------------------------------- exhaustive small scope

def enum_chunks(tier):
    return [list(bits) for n in range(1, 7) for bits in itertools.product([0, 1], repeat=n)]


def enum_cases(bits):
    B = [None] + list(range(-9, 10))
    for a in B:
        for b in B:
            for s in (None, 1, -1, 2, -2, 3, -3):
                yield {"dt": "int64", "runs": [[v, 1] for v in bits], "s": [a, b, s]}


def mk(kind):
    return lambda tier: idx_case(tier, kind)


SUBCHECKS = [
    SubCheck("int", body_int, mk("int"), quick=4000, thorough=300000, shards_quick=2, doc="x[i] for i in [-n, n), Python and numpy ints"),
    SubCheck("int-list", body_list, mk("list"), quick=4000, thorough=300000, shards_quick=2, doc="x[list / int array] with negatives, repeats, empty"),
    SubCheck("mask", body_mask, mk("mask"), quick=6000, thorough=400000, shards_quick=3, doc="dense bool mask (array / list) and run-length-encoded bool mask incl. all-false / all-true"),
    SubCheck("slice", body_slice, mk("slice"), quick=10000, thorough=700000, shards_quick=6, doc="any slice incl. bounds beyond the ends (clamp as Python) and steps of either sign"),
    SubCheck("windows", body_windows, mk("windows"), quick=4000, thorough=300000, shards_quick=2, doc="x[starts:ends] with 0-5 non-empty windows -> ragged run-length array"),
    SubCheck("slice-enum", body_slice, kind="enum", chunks=enum_chunks, cases=enum_cases,
             doc="exhaustive: all 0/1 arrays of length 1..6 x all slices with bounds None,-9..9 and steps None,+-1,+-2,+-3"),
]
