"""C11  HashTable is a dictionary over a fixed set of integer keys."""
import numpy as np
from hypothesis import strategies as st
from hypothesis.stateful import RuleBasedStateMachine, rule, initialize, invariant, precondition

from .. import gen
from ..core import SubCheck, Violation, Ctx
from ..oracle import lib, jsonable, same_scalar

RULE = ("Histories = a generated key set (1-12 unique keys of a signed/unsigned 8-64 bit dtype mixing small values, negatives, "
        "dtype extremes and magnitudes to 2**62; modulus None / 1 / 2 / 3 / n / 2n+1 / primes, inside the key dtype) with int, "
        "float or scalar (lazy) values, followed by up to 20 steps drawn by a Hypothesis rule-based state machine from: lookup "
        "one key (Python / numpy int), vector lookup with repeats (list / array), assign scalar to one key / to a key vector, "
        "assign per-key values, fill, contains on mixed present/absent keys, vector lookup containing an absent key (must be "
        "refused, table unchanged), to_dict / items, zeros_like / ones_like (with and without dtype=; the copy is then mutated "
        "independently), t + t2 and t == t2 for tables of the same key layout.  Oracle = a Python dict; invariant after every "
        "step: every key looks up to the dict's value and the key set is unchanged.  Non-trivial = (two keys share a bucket, or "
        "a negative key, or modulus 1) and an assignment precedes a lookup."
        "  Key vectors as arrays, lists and tuples; the constructor's key / value arrays and every looked-up vector are overwritten by the caller afterwards.")
ASSUMPTIONS = ["values stay inside the value dtype (0..60, or halves for float tables)",
               "tables built from the same key set in a different order have different bucket layouts: + and == across "
               "layouts are not asserted",
               "a single-key lookup of an absent key is not claimed by the property"]

KEY_DT = gen.INT_DT


def val_eq(got, exp):
    g = np.asarray(got)
    if g.size != 1:
        return False
    return same_scalar(g.reshape(-1)[0].item(), exp)


class Harness:
    """Applies plain-data operations to a real table and to the dict model; raises Violation on any difference."""

    def __init__(self):
        self.t = None       # primary table
        self.m = None       # its model: dict key -> value
        self.t2 = None      # secondary table derived by zeros_like / ones_like (same key layout)
        self.m2 = None
        self.twin = None    # built from the same arrays as t, never written
        self.mtwin = None
        self.t3 = None      # a sum t + t2 / t2 + t that stays live: later writes to its operands must not reach it
        self.m3 = None
        self.vfloat3 = False
        self.trace = []
        self.assigned = False
        self.nontrivial_shape = False
        self.lookup_after_assign = False
        self.labels = []

    # -- helpers
    def key(self, i):
        return self.keys[i % len(self.keys)]

    def karr(self, ks, as_):
        if any(abs(k) >= 2**63 for k in ks):
            as_ = "array"          # numpy itself reads a Python list holding values >= 2**63 next to small ones as float64
        if as_ == "tuple" and len(ks) >= 2:
            self.labels.append("keys-as-tuple")
            return tuple(ks)
        return list(ks) if as_ in ("list", "tuple") and ks else np.array(ks, dtype=self.dt)

    def absent(self, salt):
        lo, hi = gen.int_range(self.dt)
        lo, hi = max(lo, -2**62), min(hi, 2**62)
        base = self.key(salt)
        for d in range(1, 400):
            for c in (base + d * self.mod_eff, base - d * self.mod_eff, base + d, base - d):   # same bucket first
                if lo <= c <= hi and c not in self.m:
                    return c
        return None

    def absent_wide(self, salt):
        """an absent key OUTSIDE the key dtype's range that aliases a present key modulo 2**bits (int64 queries)"""
        bits = np.dtype(self.dt).itemsize * 8
        if bits >= 64:
            return None
        base = self.key(salt)
        for c in (base + 2**bits, base - 2**bits, base + 2 * 2**bits):
            if c not in self.m:
                return c
        return None

    def apply(self, op):
        self.trace.append(op)
        self.labels.append("op:" + op[0])
        getattr(self, "op_" + op[0].replace("-", "_"))(*op[1:])
        if op[0] != "init":
            self.check_all(len(self.trace))

    def check_all(self, salt):
        """invariant: every key maps to the model value (query order rotates with the step); key set unchanged"""
        for tab, model, name in ((self.t, self.m, "t"), (self.t2, self.m2, "t2"), (self.t3, self.m3, "t3"), (self.twin, self.mtwin, "twin-built-from-the-same-arrays")):
            if tab is None:
                continue
            ks = list(model)
            r = salt % len(ks)
            order = ks[r:] + ks[:r]
            got = lib(lambda: tab[np.array(order, dtype=self.dt)])
            if not got.ok:
                raise Violation("invariant:lookup-refused", table=name, got=got.brief(), keys=order)
            g = np.asarray(got.value)
            if g.shape != (len(order),) or not all(same_scalar(x.item(), model[k]) for x, k in zip(g, order)):
                raise Violation("invariant:values", table=name, keys=order, expected=[model[k] for k in order], got=jsonable(g))
            c = lib(lambda: tab.contains(np.array(order, dtype=self.dt)))
            if not c.ok or not bool(np.all(c.value)) or len(c.value) != len(order):
                raise Violation("invariant:key-set", table=name, got=c.brief())

    # -- operations
    def op_init(self, dt, keys, mod, vkind, vals):
        from npstructures import HashTable
        self.dt, self.keys = dt, list(keys)
        n = len(keys)
        karr = np.array(keys, dtype=dt)
        if vkind == "scalar":
            v = vals[0]
            self.m = {k: v for k in keys}
            self.vfloat = False
        elif vkind == "float-array":
            v = np.array(vals[:n], dtype=np.float64) / 2
            self.m = dict(zip(keys, v.tolist()))
            self.vfloat = True
        else:
            v = np.array(vals[:n], dtype=np.int64)
            self.m = dict(zip(keys, vals[:n]))
            self.vfloat = False
        self.mod_eff = mod if mod is not None else 2 * n - 1
        self.mod = mod
        r = lib(lambda: HashTable(karr, v, mod=mod) if mod is not None else HashTable(karr, v))
        if not r.ok:
            raise Violation("init:refused", got=r.brief(), keys=keys, mod=mod)
        self.t = r.value
        # a second table built from the very same key and value arrays; it is never written to, so it must keep answering
        # the constructor's values whatever happens to the first one
        r2 = lib(lambda: HashTable(karr, v, mod=mod) if mod is not None else HashTable(karr, v))
        if r2.ok:
            self.twin, self.mtwin = r2.value, dict(self.m)
        # the key and value arrays stay the caller's: both tables must keep their content when the caller reuses the arrays
        karr[...] = 0 if karr.any() else 1
        if isinstance(v, np.ndarray) and v.size:
            v[...] = 0 if v.any() else 1
        buckets = [k % self.mod_eff for k in keys]
        self.nontrivial_shape = len(set(buckets)) < n or min(keys) < 0 or self.mod_eff == 1
        self.labels += ["dt:" + dt, "mod:" + ("default" if mod is None else "1" if mod == 1 else "explicit"), "values:" + vkind,
                        "collisions" if len(set(buckets)) < n else "no-collision", "negative-key" if min(keys) < 0 else "nonneg-keys"]
        self.check_all(0)

    def tab(self, which):
        if which == "t2" and self.t2 is not None:
            return self.t2, self.m2
        if which == "t3" and self.t3 is not None:
            return self.t3, self.m3
        return self.t, self.m

    def value(self, v, which="t"):
        isfloat = self.vfloat2 if (which == "t2" and self.t2 is not None) else self.vfloat3 if (which == "t3" and self.t3 is not None) else self.vfloat
        return v / 2 if isfloat else v

    def op_get1(self, which, i, as_np):
        tab, model = self.tab(which)
        k = self.key(i)
        got = lib(lambda: tab[np.dtype(self.dt).type(k) if as_np else k])
        if not got.ok or not val_eq(got.value, model[k]):
            raise Violation("get1", key=k, expected=model[k], got=got.brief())
        self.lookup_after_assign |= self.assigned

    def op_getv(self, which, idx, as_):
        tab, model = self.tab(which)
        ks = [self.key(i) for i in idx]
        got = lib(lambda: tab[self.karr(ks, as_)])
        if not got.ok:
            raise Violation("getv:refused", keys=ks, got=got.brief())
        g = np.asarray(got.value)
        if g.shape != (len(ks),) or not all(same_scalar(x.item(), model[k]) for x, k in zip(g, ks)):
            raise Violation("getv:values", keys=ks, expected=[model[k] for k in ks], got=jsonable(g))
        if isinstance(got.value, np.ndarray) and got.value.size and got.value.flags.writeable:
            got.value[...] = 0 if got.value.astype(bool).any() else 1      # a looked-up vector is the caller's: the table must not follow it
        self.lookup_after_assign |= self.assigned and len(ks) > 0

    def op_set1(self, which, i, v, as_np):
        tab, model = self.tab(which)
        k = self.key(i)
        v = self.value(v, which)
        r = lib(tab.__setitem__, np.dtype(self.dt).type(k) if as_np else k, v)
        if not r.ok:
            raise Violation("set1:refused", key=k, got=r.brief())
        model[k] = v
        self.assigned = True

    def op_setv(self, which, idx, v, as_):
        tab, model = self.tab(which)
        ks = [self.key(i) for i in idx]     # repeats allowed: every addressed key gets the scalar
        if len(set(ks)) < len(ks):
            self.labels.append("setv:repeated-keys")
        if len(ks) == len(model):
            self.labels.append("setv:as-long-as-key-set")
        v = self.value(v, which)
        r = lib(tab.__setitem__, self.karr(ks, as_), v)
        if not r.ok:
            raise Violation("setv:refused", keys=ks, got=r.brief())
        for k in ks:
            model[k] = v
        self.assigned = True

    def op_setvs(self, which, idx, vs):
        tab, model = self.tab(which)
        ks = []
        for i in idx:
            if self.key(i) not in ks:
                ks.append(self.key(i))
        vals = [self.value(vs[j % len(vs)], which) for j in range(len(ks))]
        r = lib(tab.__setitem__, np.array(ks, dtype=self.dt), np.array(vals))
        if not r.ok:
            raise Violation("setvs:refused", keys=ks, got=r.brief())
        for k, v in zip(ks, vals):
            model[k] = v
        self.assigned = True

    def op_fill(self, which, v):
        tab, model = self.tab(which)
        v = self.value(v, which)
        r = lib(tab.fill, v)
        if not r.ok:
            raise Violation("fill:refused", got=r.brief())
        for k in model:
            model[k] = v
        self.assigned = True

    def op_contains(self, idx, salts):
        qs = [self.key(i) for i in idx]
        wide = False
        for s in salts:
            a = self.absent_wide(s) if s % 3 == 0 else self.absent(s)
            if a is not None:
                wide = wide or s % 3 == 0
                qs.insert(s % (len(qs) + 1), a)
        if not qs:
            return
        # queries beyond the key dtype's range travel as int64 (what a Python list of ints becomes)
        as_list = len(salts) % 2 == 1 and all(abs(q) < 2**62 for q in qs)
        if as_list:
            self.labels.append("contains:list-query")
        got = lib(lambda: self.t.contains(list(qs) if as_list else np.array(qs, dtype=np.int64 if wide else self.dt)))
        if wide:
            self.labels.append("contains:wide-absent")
        exp = [q in self.m for q in qs]
        if not got.ok or [bool(x) for x in np.asarray(got.value)] != exp:
            raise Violation("contains", queries=qs, expected=exp, got=got.brief())
        self.labels.append("contains:absent" if not all(exp) else "contains:all-present")

    def op_getmiss(self, which, idx, salt, pos):
        tab, model = self.tab(which)
        wide = salt % 3 == 0 and self.absent_wide(salt) is not None
        a = self.absent_wide(salt) if wide else self.absent(salt)
        if a is None:
            return
        ks = [self.key(i) for i in idx]
        if wide:
            ks = [k for k in ks if abs(k) < 2**62]
            self.labels.append("getmiss:wide-absent")
        ks.insert(pos % (len(ks) + 1), a)
        spell = "array" if wide else ["array", "list", "tuple"][(salt + pos) % 3]
        q = np.array(ks, dtype=np.int64) if wide else self.karr(ks, spell)
        got = lib(lambda: tab[q])
        if got.ok:
            raise Violation("lookup-with-absent-key:answered", keys=ks, absent=a, got=got.brief(),
                            table="scalar-valued" if not hasattr(getattr(tab, "_values", None), "ravel") else "array-valued")

    def op_todict(self, which, how):
        tab, model = self.tab(which)
        got = lib(lambda: tab.to_dict() if how == "to_dict" else dict(tab.items()))
        if not got.ok:
            raise Violation(how + ":refused", got=got.brief())
        d = {int(k): (v.item() if hasattr(v, "item") else v) for k, v in got.value.items()}
        if set(d) != set(model) or not all(same_scalar(d[k], model[k]) for k in model):
            raise Violation(how + ":values", expected={str(k): v for k, v in model.items()}, got={str(k): v for k, v in d.items()})

    def op_like(self, f, dtype):
        got = lib(lambda: getattr(np, f)(self.t, dtype=dtype) if dtype else getattr(np, f)(self.t))
        if not got.ok:
            raise Violation(f + ":refused", got=got.brief())
        self.t2 = got.value
        c = 0 if f == "zeros_like" else 1
        self.m2 = {k: c for k in self.m}
        self.vfloat2 = dtype == "float64" or (dtype is None and self.vfloat)
        self.labels.append("t2-created")

    @property
    def has_t2(self):
        return self.t2 is not None

    def op_add(self, order="t+t2"):
        from npstructures import HashTable
        if self.t2 is None:
            return
        got = lib(lambda: self.t + self.t2 if order == "t+t2" else self.t2 + self.t)
        if not got.ok or not isinstance(got.value, HashTable):
            raise Violation("add:result", got=got.brief(), order=order)
        ks = list(self.m)
        r = lib(lambda: got.value[np.array(ks, dtype=self.dt)])
        exp = [self.m[k] + self.m2[k] for k in ks]
        if not r.ok or not all(same_scalar(x.item(), e) for x, e in zip(np.asarray(r.value), exp)):
            raise Violation("add:values", expected=exp, got=r.brief(), order=order)
        # the sum stays live as t3 (checked by the invariant after every later step, writable like the others)
        self.t3 = got.value
        self.m3 = dict(zip(ks, exp))
        self.vfloat3 = np.asarray(r.value).dtype.kind == "f"   # a still-constant operand contributes a Python number
        self.labels.append("t3-created:" + order)

    def op_addperm(self, salt, side):
        """the sum with a table over the SAME key set built from the keys in another order (and its own values): either
        refused, or a table that answers by key like the sum of the two dictionaries"""
        from npstructures import HashTable
        ks = list(self.m)
        n = len(ks)
        perm = sorted(range(n), key=lambda i: ((i + 1) * (2 * salt + 1) * 2654435761) % 1000003)
        pk = [ks[i] for i in perm]
        pv = [(3 * i + salt) % 17 for i in perm]
        other = lib(lambda: HashTable(np.array(pk, dtype=self.dt), np.array(pv, dtype=np.int64), mod=self.mod) if self.mod is not None
                    else HashTable(np.array(pk, dtype=self.dt), np.array(pv, dtype=np.int64)))
        if not other.ok:
            raise Violation("add-permuted:operand-refused", got=other.brief(), keys=pk)
        got = lib(lambda: self.t + other.value if side == "left" else other.value + self.t)
        self.labels.append("add-permuted:" + ("identity-order" if pk == ks else "reordered"))
        if not got.ok:
            self.labels.append("add-permuted:refused")
            return
        m2 = dict(zip(pk, pv))
        r = lib(lambda: got.value[np.array(ks, dtype=self.dt)])
        exp = [self.m[k] + m2[k] for k in ks]
        if not r.ok or not all(same_scalar(x.item(), e) for x, e in zip(np.asarray(r.value), exp)):
            raise Violation("add-permuted:values", keys=ks, other_keys=pk, other_values=pv, expected=exp, got=r.brief(), side=side)

    def op_eq(self):
        if self.t2 is None:
            return
        exp = all(self.m[k] == self.m2[k] for k in self.m)
        got = lib(lambda: self.t == self.t2)
        if not got.ok or bool(got.value) != exp:
            raise Violation("eq", expected=exp, got=got.brief())
        self.labels.append("eq:true" if exp else "eq:false")

    def finish(self, ctx):
        ctx.label(*self.labels)
        ctx.nt(self.nontrivial_shape and self.lookup_after_assign)


def body_history(trace, ctx):
    h = Harness()
    try:
        for op in trace:
            h.apply(op)
    finally:
        h.finish(ctx)


# ---------------------------------------------------------------- key sets

@st.composite
def key_setup(draw):
    dt = draw(st.sampled_from(KEY_DT))
    lo, hi = gen.int_range(dt)
    lo, hi = max(lo, -2**63), min(hi, 2**64 - 1)      # the whole range of the key dtype
    small = st.integers(max(lo, -20), min(hi, 20))
    wide = st.integers(lo, hi)
    edge = st.sampled_from(sorted({lo, hi, 0, max(lo, -1), min(hi, 1), hi - 1, lo + 1}))
    n = draw(st.integers(1, 12))
    keys = draw(st.lists(st.one_of(small, small, wide, edge), min_size=1, max_size=n, unique=True))
    n = len(keys)
    mods = [None, None, 1, 2, 3, n, 2 * n + 1, 5, 7, 13, 101, 1009]
    mod = draw(st.sampled_from([m for m in mods if m is None or m <= hi]))
    # make collisions likely: optionally re-map half of the keys into one bucket
    if draw(st.booleans()) and n >= 2:
        m_eff = mod if mod is not None else 2 * n - 1
        base = keys[0]
        ks = [base]
        for j, k in enumerate(keys[1:], 1):
            c = base + j * m_eff
            ks.append(c if (j % 2 and lo <= c <= hi and c not in ks) else k)
        if len(set(ks)) == n:
            keys = ks
    elif draw(st.integers(0, 2)) == 0 and n >= 2:
        # several keys in bucket 0 (multiples of the modulus), with or without the key 0 itself; the rest elsewhere
        m_eff = mod if mod is not None else 2 * n - 1
        first = draw(st.sampled_from([0, 1, 1]))
        k0 = draw(st.integers(2, n))
        ks = [j * m_eff for j in range(first, first + k0)]
        ks = [k for k in ks if lo <= k <= hi]
        for k in keys:
            if len(ks) < n and k not in ks:
                ks.append(k)
        if len(set(ks)) == len(ks) and len(ks) >= 1 and (mod is None and len(ks) == n or mod is not None):
            keys = ks
    return dt, keys, mod


IDX = st.integers(0, 11)
VAL = st.integers(0, 30)
WHICH = st.sampled_from(["t", "t", "t2", "t3"])


def machine(tier, sink):
    class TableMachine(RuleBasedStateMachine):
        def __init__(self):
            super().__init__()
            self.h = Harness()
            self.violation = None

        def do(self, op):
            try:
                self.h.apply(op)
            except Violation as v:
                self.violation = v
                raise

        @initialize(setup=key_setup(), vkind=st.sampled_from(["int-array", "int-array", "float-array", "scalar"]),
                    vals=st.lists(VAL, min_size=12, max_size=12))
        def init(self, setup, vkind, vals):
            dt, keys, mod = setup
            self.do(["init", dt, keys, mod, vkind, vals])

        @rule(which=WHICH, i=IDX, as_np=st.booleans())
        def get1(self, which, i, as_np):
            self.do(["get1", which, i, as_np])

        @rule(which=WHICH, idx=st.lists(IDX, max_size=8), as_=st.sampled_from(["array", "list", "tuple"]))
        def getv(self, which, idx, as_):
            self.do(["getv", which, idx, as_])

        @rule(which=WHICH, i=IDX, v=VAL, as_np=st.booleans())
        def set1(self, which, i, v, as_np):
            self.do(["set1", which, i, v, as_np])

        @rule(which=WHICH, idx=st.lists(IDX, min_size=1, max_size=12), v=VAL, as_=st.sampled_from(["array", "list", "tuple"]))
        def setv(self, which, idx, v, as_):
            self.do(["setv", which, idx, v, as_])

        @rule(which=WHICH, idx=st.lists(IDX, min_size=1, max_size=6), vs=st.lists(VAL, min_size=1, max_size=6))
        def setvs(self, which, idx, vs):
            self.do(["setvs", which, idx, vs])

        @rule(which=WHICH, v=VAL)
        def fill(self, which, v):
            self.do(["fill", which, v])

        @rule(idx=st.lists(IDX, max_size=4), salts=st.lists(st.integers(0, 50), max_size=3))
        def contains(self, idx, salts):
            self.do(["contains", idx, salts])

        @rule(which=WHICH, idx=st.lists(IDX, max_size=4), salt=st.integers(0, 50), pos=st.integers(0, 5))
        def getmiss(self, which, idx, salt, pos):
            self.do(["getmiss", which, idx, salt, pos])

        @rule(which=WHICH, how=st.sampled_from(["to_dict", "items"]))
        def todict(self, which, how):
            self.do(["todict", which, how])

        @rule(f=st.sampled_from(["zeros_like", "ones_like"]), dtype=st.sampled_from([None, None, "int64", "float64"]))
        def like(self, f, dtype):
            self.do(["like", f, dtype])

        @precondition(lambda self: self.h.has_t2)
        @rule(order=st.sampled_from(["t+t2", "t2+t"]))
        def add(self, order):
            self.do(["add", order])

        @rule(salt=st.integers(0, 50), side=st.sampled_from(["left", "right"]))
        def addperm(self, salt, side):
            self.do(["addperm", salt, side])

        @precondition(lambda self: self.h.has_t2)
        @rule()
        def eq(self):
            self.do(["eq"])

        def teardown(self):
            ctx = Ctx()
            self.h.finish(ctx)
            if self.h.trace:
                sink(self.h.trace, ctx, self.violation)

    return TableMachine


# ---------------------------------------------------------------- HashSet

def body_hashset(case, ctx):
    from npstructures import HashSet
    dt, keys, mod = case["dt"], case["keys"], case["mod"]
    m_eff = mod if mod is not None else 2 * len(keys) - 1
    lo, hi = gen.int_range(dt)
    qs = []
    for q in case["q"]:
        k = keys[q[1] % len(keys)]
        if q[0] == "key":
            qs.append(k)
        else:
            c = k + (q[2] if q[0] == "near" else q[2] * m_eff)
            qs.append(c if lo <= c <= hi and abs(c) <= 2**62 else k)
    ctx.label("dt:" + dt, "mod:" + ("default" if mod is None else str(min(mod, 4))), "has-absent" if any(q not in keys for q in qs) else "all-present")
    ctx.nt(any(q not in keys for q in qs) and any(q in keys for q in qs))
    hs = lib(lambda: HashSet(np.array(keys, dtype=dt), mod=mod) if mod is not None else HashSet(np.array(keys, dtype=dt)))
    if not hs.ok:
        raise Violation("hashset:init-refused", got=hs.brief())
    exp = [q in keys for q in qs]
    got = lib(lambda: hs.value.contains(np.array(qs, dtype=dt)))
    if not got.ok or [bool(x) for x in np.asarray(got.value)] != exp:
        raise Violation("hashset:contains-vector", queries=qs, expected=exp, got=got.brief())
    for q, e in zip(qs, exp):
        g = lib(lambda: hs.value.contains(q))
        if not g.ok or bool(g.value) != e:
            raise Violation("hashset:contains-scalar", query=q, expected=e, got=g.brief())


@st.composite
def hashset_case(draw, tier):
    dt, keys, mod = draw(key_setup())
    q = st.one_of(st.tuples(st.just("key"), IDX).map(list),
                  st.tuples(st.sampled_from(["near", "bucket"]), IDX, st.integers(-3, 3)).map(list))
    return {"dt": dt, "keys": keys, "mod": mod, "q": draw(st.lists(q, min_size=1, max_size=8))}


# ---------------------------------------------------------------- a constant table: reads, then fill with any number

WIDE_FILL = [2.5, -1, 300, 70000, -0.5, 2**40, 0, 7]
CONST_READS = ["to_dict", "items", "getv", "get1", "contains", "zeros_like", "eq-self", "getmiss"]


def body_const_fill(case, ctx):
    """HashTable(keys, c) is never assigned to, only read (to_dict / items / lookups / contains / zeros_like ...) and then
    filled with a number that need not fit the key dtype; afterwards every lookup and to_dict answer that number.  Reads
    must not change what a later fill does."""
    from npstructures import HashTable
    dt, keys, mod, c, w = case["dt"], case["keys"], case["mod"], case["c"], WIDE_FILL[case["w"] % len(WIDE_FILL)]
    ctx.label("dt:" + dt, "fill:" + type(w).__name__, "reads:%d" % len(case["reads"]), *["read:" + r for r in case["reads"]])
    ctx.nt(len(case["reads"]) > 0)
    karr = np.array(keys, dtype=dt)
    r = lib(lambda: HashTable(karr, c, mod=mod) if mod is not None else HashTable(karr, c))
    if not r.ok:
        raise Violation("const-fill:init-refused", got=r.brief())
    t = r.value

    def agree(v, stage):
        got = lib(lambda: t[np.array(keys, dtype=dt)])
        if not got.ok or np.asarray(got.value).shape != (len(keys),) or not all(same_scalar(float(x), float(v)) for x in np.asarray(got.value)):
            raise Violation("const-fill:lookup", stage=stage, expected=v, got=got.brief(), reads=case["reads"])
        d = lib(lambda: t.to_dict() if stage == "after-fill" else None)
        if stage == "after-fill" and (not d.ok or {int(k) for k in d.value} != set(keys) or not all(float(x) == float(v) for x in d.value.values())):
            raise Violation("const-fill:to_dict", expected=v, got=d.brief(), reads=case["reads"])
    for rd in case["reads"]:
        f = {"to_dict": lambda: t.to_dict(), "items": lambda: list(t.items()), "getv": lambda: t[list(keys)], "get1": lambda: t[keys[0]],
             "contains": lambda: t.contains(np.array(keys, dtype=dt)), "zeros_like": lambda: np.zeros_like(t), "eq-self": lambda: t == t,
             "getmiss": lambda: t[np.array([k for k in (max(keys) - 1, min(keys) + 1, 0, 1) if k not in keys][:1], dtype=dt)]}[rd]
        lib(f)          # the read's own outcome is the history machine's business
    agree(c, "before-fill")
    out = lib(t.fill, w)
    if not out.ok:
        raise Violation("const-fill:fill-refused", value=w, got=out.brief(), reads=case["reads"])
    agree(w, "after-fill")


@st.composite
def const_fill_case(draw, tier):
    dt, keys, mod = draw(key_setup())
    return {"dt": dt, "keys": keys, "mod": mod, "c": draw(st.sampled_from([0, 1, 7, 30])), "w": draw(st.integers(0, 7)),
            "reads": draw(st.lists(st.sampled_from(CONST_READS), max_size=3))}


SUBCHECKS = [
    SubCheck("constant-table-fill", body_const_fill, const_fill_case, quick=3000, thorough=200000, shards_quick=2,
             doc="a never-assigned constant table: 0-3 reads, then fill with a number that need not fit the key dtype; lookups and to_dict follow it"),
    SubCheck("history", body_history, kind="machine", machine=machine, steps=20, quick=5000, thorough=450000, shards_quick=14,
             doc="rule-based state machine over HashTable vs dict model (invariant after every step)"),
    SubCheck("hashset", body_hashset, hashset_case, quick=3000, thorough=150000, shards_quick=2,
             doc="HashSet.contains, scalar and vector, on present keys, near misses and same-bucket absent keys"),
]
