"""C09  Column aggregates count every row that reaches the column, once."""
import numpy as np
from hypothesis import strategies as st

from .. import gen
from ..core import SubCheck, Violation
from ..oracle import LAZY_CHOICES, lib, lib_twice, np_rows, lazy_ra, expect_unchanged, expect_array, jsonable, arrays_equal
from .c05 import close

RULE = ("Cases = ragged arrays with at least one non-empty row (empty rows anywhere, very uneven row lengths 0/1/long), "
        "dtype bool / signed / unsigned / float with |int| <= 2**40 and exact dyadic floats (plus inf/nan), operand fresh or "
        "pending view.  Oracle = explicit column lists [row[j] for row in rows if len(row) > j]: sum(axis=0) by value "
        "(bool: count of True), col_counts = list lengths, mean(axis=0) = sum/count within 2 ulp, get_column_values(j) = "
        "the list in row order with the array's dtype.  Non-trivial = at least two distinct row lengths and an empty row."
        "  Shapes include near-rectangular ones (a rectangle with up to three cells moved between rows); every aggregate is asked twice, the array returned first being overwritten in between.")
ASSUMPTIONS = ["the dtype of sum(axis=0) is not asserted (the library returns float64 from bincount; the property speaks of values)",
               "integer magnitudes <= 2**40 so that float64 accumulation is exact"]


def columns(rows):
    L = max(len(r) for r in rows)
    return [[r[j] for r in rows if len(r) > j] for j in range(L)]


def common(case, ctx, *labels):
    a = case["a"]
    lens = a["lens"]
    ctx.label(*gen.shape_labels(lens), "dt:" + a["dt"], "lazy" if case["lz"] else "fresh", *labels)
    ctx.nt(len(set(lens)) >= 2 and 0 in lens)
    if max(lens) - min(lens) >= 8:
        ctx.label("very-uneven")
    rows = np_rows(a)
    return a, rows, lazy_ra(rows, a["dt"], case["lz"])


def body_sum(case, ctx):
    a, rows, ra = common(case, ctx, "spell:" + case["spell"])
    cols = columns(rows)
    with np.errstate(all="ignore"):
        if a["dt"] == "bool":
            exp = np.array([sum(bool(x) for x in c) for c in cols], dtype=np.float64)
        else:
            exp = np.array([np.sum(np.array(c, dtype=np.float64)) for c in cols], dtype=np.float64)
        got = lib_twice(lambda: ra.sum(axis=0) if case["spell"] == "method" else np.sum(ra, axis=0))
    if not got.ok:
        raise Violation("colsum:unexpected-refusal", got=got.brief())
    v = np.asarray(got.value)
    if v.shape != exp.shape or not arrays_equal(v.astype(np.float64), exp):
        raise Violation("colsum:values", expected=jsonable(exp), got=jsonable(v))
    expect_unchanged(ra, rows, a["dt"], "colsum-operand")


def exact_in_float64(x):
    return abs(x) <= 2**53 or int(float(x)) == x


def body_sum_large(case, ctx):
    """64-bit magnitudes: a column is compared whenever every partial sum (in row order) is exactly representable in
    float64, i.e. whenever a correct float64 accumulation has exactly one possible answer"""
    a, rows, ra = common(case, ctx, "spell:" + case["spell"])
    cols = columns([[int(v) for v in r] for r in rows])
    with np.errstate(all="ignore"):
        got = lib_twice(lambda: ra.sum(axis=0) if case["spell"] == "method" else np.sum(ra, axis=0))
    if not got.ok:
        raise Violation("colsum-large:unexpected-refusal", got=got.brief())
    v = np.asarray(got.value)
    if v.shape != (len(cols),):
        raise Violation("colsum-large:shape", expected=len(cols), got=list(v.shape))
    compared = 0
    for j, c in enumerate(cols):
        partial, ok = 0, True
        for x in c:
            partial += x
            ok = ok and exact_in_float64(partial) and exact_in_float64(x)
        if not ok:
            continue
        compared += 1
        if float(v[j]) != float(partial):
            raise Violation("colsum-large:value", column=j, expected=partial, got=float(v[j]), column_values=c)
    ctx.label("compared-columns:%d" % min(compared, 3), "has-value>=2**63" if any(x >= 2**63 for c in cols for x in c) else "all<2**63")
    ctx.nt(any(abs(x) > 2**53 for c in cols for x in c) and compared > 0)
    expect_unchanged(ra, rows, a["dt"], "colsum-operand")


@st.composite
def large_case(draw, tier):
    dt = draw(st.sampled_from(["uint64", "uint64", "int64"]))
    lens = draw(gen.lengths(tier, min_rows=1, max_rows=4, max_len=4))
    if sum(lens) == 0:
        lens = lens + [1]
    lo, hi = gen.int_range(dt)
    big = st.sampled_from(sorted({0, 0, 1, hi, hi - 2047 if dt == "uint64" else hi - 1023, 2**63 if dt == "uint64" else -2**63, 2**62, 2**53, 2**53 + 2, lo}))
    vals = draw(st.lists(st.one_of(big, st.integers(0, 3)), min_size=sum(lens), max_size=sum(lens)))
    return {"a": {"lens": lens, "dt": dt, "vals": vals}, "spell": draw(st.sampled_from(["method", "np"])), "j": 0,
            "lz": draw(st.sampled_from([0, 0, 1, 2]))}


def body_counts(case, ctx):
    a, rows, ra = common(case, ctx)
    exp = np.array([len(c) for c in columns(rows)])
    got = lib_twice(lambda: ra.col_counts())
    expect_array(got, exp, "col_counts", check_dtype=False)
    expect_unchanged(ra, rows, a["dt"], "col_counts-operand")


def body_mean(case, ctx):
    a, rows, ra = common(case, ctx, "spell:" + case["spell"])
    cols = columns(rows)
    res_dt = a["dt"] if a["dt"].startswith("float") else "float64"
    with np.errstate(all="ignore"):
        exp = np.array([np.sum(np.array(c, dtype=np.float64)) / len(c) for c in cols]).astype(res_dt)
        got = lib_twice(lambda: ra.mean(axis=0) if case["spell"] == "method" else np.mean(ra, axis=0))
    if not got.ok:
        raise Violation("colmean:unexpected-refusal", got=got.brief())
    v = np.asarray(got.value)
    if v.shape != exp.shape or v.dtype.kind != "f" or not close(v.astype(res_dt), exp, 2):
        raise Violation("colmean:values", expected=jsonable(exp), got=jsonable(v))
    expect_unchanged(ra, rows, a["dt"], "colmean-operand")


def body_mean_wide(case, ctx):
    """float columns whose SUM leaves the element dtype's range while the mean stays inside it"""
    a, rows, ra = common(case, ctx, "spell:" + case["spell"])
    cols = columns(rows)
    with np.errstate(all="ignore"):
        exp64 = np.array([np.sum(np.array(c, dtype=np.float64)) / len(c) for c in cols])
        exp = exp64.astype(a["dt"])
        got = lib_twice(lambda: ra.mean(axis=0) if case["spell"] == "method" else np.mean(ra, axis=0))
    if not got.ok:
        raise Violation("colmean-wide:unexpected-refusal", got=got.brief())
    v = np.asarray(got.value)
    big = float(np.finfo(a["dt"]).max)
    overflowing = [j for j, c in enumerate(cols) if abs(float(np.sum(np.array(c, dtype=np.float64)))) > big and np.isfinite(exp[j])]
    ctx.label("sum-overflows-dtype" if overflowing else "sum-in-range")
    ctx.nt(bool(overflowing))
    if v.shape != exp.shape or v.dtype.kind != "f" or not close(v.astype(a["dt"]), exp, 4):
        raise Violation("colmean-wide:values", expected=jsonable(exp), got=jsonable(v), overflowing_columns=overflowing)
    expect_unchanged(ra, rows, a["dt"], "colmean-operand")


@st.composite
def mean_wide_case(draw, tier):
    dt = draw(st.sampled_from(["float32", "float32", "float64"]))
    top = float(np.finfo(dt).max)
    pool = st.sampled_from([top, -top, top / 2, top * 0.75, -top * 0.75, top / 4, 1.0, 0.0, -2.5])
    lens = draw(st.lists(st.integers(0, 3), min_size=2, max_size=5))
    if sum(lens) == 0:
        lens = lens + [1]
    vals = [float(np.array(v, dtype=dt)) for v in draw(st.lists(pool, min_size=sum(lens), max_size=sum(lens)))]
    return {"a": {"lens": lens, "dt": dt, "vals": vals}, "spell": draw(st.sampled_from(["method", "np"])), "j": 0,
            "lz": draw(st.sampled_from([0, 0, 1, 2]))}


def body_colvalues(case, ctx):
    a, rows, ra = common(case, ctx)
    cols = columns(rows)
    j = case["j"] % len(cols)
    ctx.label("last-column" if j == len(cols) - 1 else "inner-column")
    got = lib_twice(lambda: ra.get_column_values(j))
    expect_array(got, np.array(cols[j], dtype=a["dt"]), "get_column_values", j=j)
    expect_unchanged(ra, rows, a["dt"], "get_column_values-operand")


@st.composite
def col_case(draw, tier, specials=True):
    uneven = draw(st.integers(0, 3)) == 0
    if uneven:
        lens = draw(st.lists(st.sampled_from([0, 0, 1, 1, 2, 30, 70 if tier == "thorough" else 20]), min_size=1, max_size=6))
        dt = draw(st.sampled_from(gen.ALL_DT))
        a = {"lens": lens, "dt": dt, "vals": draw(gen.flat_values(dt, sum(lens), specials=specials, mag=2**40))}
    else:
        a = draw(gen.ragged(tier, min_rows=1, mag=2**40, specials=specials))
    if sum(a["lens"]) == 0:
        a = {"lens": a["lens"] + [1], "dt": a["dt"], "vals": draw(gen.flat_values(a["dt"], 1, specials=specials, mag=2**40))}
    return {"a": a, "spell": draw(st.sampled_from(["method", "np"])), "j": draw(st.integers(0, 1000)),
            "lz": draw(st.sampled_from(LAZY_CHOICES))}


def body_sequence(case, ctx):
    """2-5 column aggregates (different kinds, spellings, columns) asked of ONE array object in a generated order: every
    answer against the model, whatever was asked before"""
    global lazy_ra
    a, rows, ra = common(case, ctx, "sequence:%d" % len(case["ops"]))
    build, lazy_ra = lazy_ra, (lambda *args, **kw: ra)
    try:
        for kind, spell, j in case["ops"]:
            ctx.label("seq:" + kind)
            {"sum": body_sum, "counts": body_counts, "mean": body_mean, "values": body_colvalues}[kind](dict(case, spell=spell, j=j), ctx)
    finally:
        lazy_ra = build


@st.composite
def sequence_case(draw, tier):
    case = draw(col_case(tier, specials=False))
    op = st.tuples(st.sampled_from(["sum", "counts", "mean", "values", "values"]), st.sampled_from(["method", "np"]), st.integers(0, 1000)).map(list)
    case["ops"] = draw(st.lists(op, min_size=2, max_size=5))
    return case


SUBCHECKS = [
    SubCheck("aggregate-sequence", body_sequence, sequence_case, quick=4000, thorough=250000, shards_quick=3,
             doc="2-5 column aggregates of different kinds / columns on one array object, each against the model"),
    SubCheck("column-sum", body_sum, col_case, quick=7000, thorough=400000, shards_quick=4,
             doc="sum(axis=0) / np.sum(axis=0): per column the sum over exactly the rows that reach it (bool: count)"),
    SubCheck("column-sum-64bit", body_sum_large, large_case, quick=3000, thorough=200000, shards_quick=2,
             doc="uint64 / int64 values up to the dtype extremes; columns whose partial sums are exactly representable are compared"),
    SubCheck("col-counts", body_counts, col_case, quick=3000, thorough=200000, shards_quick=2,
             doc="col_counts() = number of rows with more than j elements"),
    SubCheck("column-mean", body_mean, col_case, quick=5000, thorough=300000, shards_quick=3,
             doc="mean(axis=0) = column sum / column count"),
    SubCheck("column-mean-wide", body_mean_wide, mean_wide_case, quick=2000, thorough=100000, shards_quick=1,
             doc="float32/float64 columns whose sum exceeds the element dtype's range while the mean does not"),
    SubCheck("column-values", body_colvalues, col_case, quick=5000, thorough=300000, shards_quick=3,
             doc="get_column_values(j) = the j-th elements of the rows that have one, in row order"),
]
