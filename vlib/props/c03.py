"""C03  Assignment writes exactly the addressed cells and nothing else."""
import copy

import numpy as np
from hypothesis import strategies as st

from .. import gen
from ..core import SubCheck, Violation
from ..oracle import (LAZY_CHOICES, lib, model_index, poscoded, ra_from_rows, py_sel, sel_kind, lazy_ra, LAZY_MODES, np_rows,
                      expect_refused, expect_unchanged, snapshot, rows_equal, jsonable)
from . import c02

RULE = ("Cases = (row-length vector, repetition-free row selector, optional column selector, value kind) over "
        "position-coded int64 content; the addressed (row, col) cells are computed by running the C02 list model on a "
        "coordinate-labelled copy, the values are written into a deep copy of the rows, and afterwards tolist/len/"
        "lengths/dtype of the array must equal the copy (addressed cells hold the values AND everything else is "
        "unchanged); value objects must be unchanged; refusals must leave the array unchanged.  Non-trivial = at least "
        "one addressed and one unaddressed cell, or an expected refusal."
        "  A ragged mask is also changed by cell assignments and used for a second assignment.")
ASSUMPTIONS = ["row selectors are repetition-free modulo the row count (the property's stated domain)",
               "boolean ragged masks have the array's own shape"]

VALUE_KINDS = ["scalar", "npscalar", "flat-array", "flat-list", "column", "column-list", "ragged", "ragged-lazy",
               "matrix", "ragged-bad-extra-row", "ragged-bad-longer", "ragged-bad-shorter", "ragged-bad-permuted"]


def coord_rows(lens):
    return [[[i, j] for j in range(l)] for i, l in enumerate(lens)]


def addressed(lens, r, c):
    """list of per-selected-row lists of (i, j) cells, result kind; or None if the index must be refused"""
    m = model_index(coord_rows(lens), r, c)
    if m[0] == "refuse":
        return None, "refuse"
    if m[0] == "rows":
        return m[1], "rows"
    if m[0] == "row":
        return [m[1]], "row"
    if m[0] == "cells":
        return [[x] for x in m[1]], "cells"
    return [[m[1]]], "cell"


def make_value(kind, cells, rkind, lazy_mode):
    """-> (value object, expected writes [(i, j, v)], expect_refusal) or None if the kind does not apply"""
    flat = [x for row in cells for x in row]
    k = len(cells)
    writes = []
    if kind in ("scalar", "npscalar"):
        v = -7
        return (np.int64(v) if kind == "npscalar" else v), [(i, j, v) for i, j in flat], False
    if kind in ("flat-array", "flat-list"):
        if rkind == "cell":
            return None
        vals = [-(100 + t) for t in range(len(flat))]
        value = np.array(vals, dtype=np.int64) if kind == "flat-array" else vals
        if kind == "flat-list" and rkind == "rows" and len(vals) == 0:
            return None  # an empty list has no dtype; numpy itself cannot tell what it is
        return value, [(i, j, v) for (i, j), v in zip(flat, vals)], False
    if rkind != "rows":
        return None
    if kind in ("column", "column-list"):
        vals = [-(100 + t) for t in range(k)]
        value = np.array(vals, dtype=np.int64).reshape(k, 1)
        if kind == "column-list":
            if k == 0:
                return None
            value = [[v] for v in vals]
        return value, [(i, j, v) for row, v in zip(cells, vals) for (i, j) in row], False
    vrows = [[-(100 + 50 * a + b) for b in range(len(row))] for a, row in enumerate(cells)]
    good = [(i, j, v) for row, vr in zip(cells, vrows) for (i, j), v in zip(row, vr)]
    if kind == "ragged":
        return lazy_ra(vrows, "int64", 0), good, False
    if kind == "ragged-lazy":
        return lazy_ra(vrows, "int64", 1 + lazy_mode % (LAZY_MODES - 1)), good, False
    if kind == "matrix":
        if k == 0 or len({len(r) for r in cells}) != 1 or len(cells[0]) == 1:
            return None  # (k, 1) is the column-vector kind
        return np.array(vrows, dtype=np.int64).reshape(k, len(cells[0])), good, False
    if kind == "ragged-bad-extra-row":
        return lazy_ra(vrows + [[5]], "int64", 0), [], True
    if kind == "ragged-bad-longer":
        if k == 0:
            return None
        return lazy_ra([vrows[0] + [5]] + vrows[1:], "int64", 0), [], True
    if kind == "ragged-bad-shorter":
        t = [a for a, r in enumerate(vrows) if len(r)]
        if not t:
            return None
        a = t[-1]
        return lazy_ra(vrows[:a] + [vrows[a][:-1]] + vrows[a + 1:], "int64", 0), [], True
    if kind == "ragged-bad-permuted":
        # same number of rows and cells, different row lengths
        ls = [len(r) for r in vrows]
        if k < 2 or ls == ls[::-1]:
            return None
        fl = [x for r in vrows for x in r]
        out, c = [], 0
        for l in ls[::-1]:
            out.append(fl[c:c + l])
            c += l
        return lazy_ra(out, "int64", 0), [], True
    raise ValueError(kind)


def value_snapshot(v):
    from npstructures import RaggedArray
    if isinstance(v, RaggedArray):
        return None  # snapshot through a read would materialise a lazy value; compared afterwards with its rows
    if isinstance(v, np.ndarray):
        return v.copy()
    return copy.deepcopy(v)


def body_assign(case, ctx):
    lens, r, c, kind, tl, vl = case["lens"], case["r"], case["c"], case["vk"], case["tlazy"], case["vlazy"]
    rows = poscoded(lens)
    cells, rkind = addressed(lens, r, c)
    ctx.label(*gen.shape_labels(lens), "r:" + sel_kind(r), "c:" + sel_kind(c), "target-lazy" if tl else "target-fresh")
    exp = copy.deepcopy(rows)
    idx = c02.build_index(r, c, "plain" if c is None else "pair")
    if cells is None:
        ctx.label("expect-index-refusal")
        ctx.nt()
        ra = lazy_ra(rows, "int64", tl)
        out = lib(ra.__setitem__, idx, -7)
        expect_refused(out, "assign", index=repr(idx))
        expect_unchanged(ra, rows, "int64", "assign-refused")
        return
    mv = make_value(kind, cells, rkind, vl)
    if mv is None:
        ctx.label("kind-not-applicable")
        mv = make_value("scalar", cells, rkind, vl)
        kind = "scalar"
    value, writes, refuse = mv
    ctx.label("v:" + kind, "result:" + rkind)
    for i, j, v in writes:
        exp[i][j] = v
    n_cells = sum(lens)
    n_addr = sum(len(x) for x in cells)
    ctx.nt(refuse or (0 < n_addr < n_cells))
    if n_addr == 0:
        ctx.label("no-cell-addressed")
    vrows_before = None
    from npstructures import RaggedArray
    if isinstance(value, RaggedArray):
        vrows_before = [[v for (_, _, v) in writes if False]]  # placeholder, real rows recomputed below
    snap = value_snapshot(value)
    ra = lazy_ra(rows, "int64", tl)
    out = lib(ra.__setitem__, idx, value)
    if refuse:
        expect_refused(out, "assign-mismatching-ragged", index=repr(idx), value=jsonable(value.tolist()))
        expect_unchanged(ra, rows, "int64", "assign-refused")
        return
    if not out.ok:
        raise Violation("assign:unexpected-refusal", got=out.brief(), index=repr(idx), value=jsonable(describe_value(value)))
    got = lib(lambda: snapshot(ra))
    if not got.ok:
        raise Violation("assign:array-unreadable-after", got=got.brief())
    grows, gdt, glens = got.value
    if glens != lens or len(grows) != len(lens):
        raise Violation("assign:row-structure-changed", expected=lens, got=glens)
    if not rows_equal(grows, exp):
        raise Violation("assign:content", expected=exp, got=grows, index=repr(idx), value=jsonable(describe_value(value)))
    if n_cells and gdt != "int64":
        raise Violation("assign:dtype-changed", got=gdt)
    # the value object is not modified
    if isinstance(value, RaggedArray):
        vexp = [[-(100 + 50 * a + b) for b in range(len(row))] for a, row in enumerate(cells)]
        expect_unchanged(value, vexp, "int64", "assign-value")
    elif isinstance(value, np.ndarray):
        if not np.array_equal(value, snap):
            raise Violation("assign:value-object-modified")
    elif value != snap:
        raise Violation("assign:value-object-modified")


def describe_value(v):
    from npstructures import RaggedArray
    if isinstance(v, RaggedArray):
        return {"ragged": v.tolist()}
    return v


@st.composite
def assign_case(draw, tier):
    lens = draw(gen.lengths(tier))
    n = len(lens)
    L = max(lens) if lens else 0
    r = draw(gen.rowsel(n, norepeat=True))
    c = draw(gen.colsel(L))
    cells, rkind = addressed(lens, r, c)
    kinds = ["scalar"] if cells is None else [k for k in VALUE_KINDS if make_value(k, cells, rkind, 0) is not None]
    return {"lens": lens, "r": r, "c": c, "vk": draw(st.sampled_from(kinds)),
            "tlazy": draw(st.sampled_from(LAZY_CHOICES)), "vlazy": draw(st.integers(0, 3))}


# ---------------------------------------------------------------- value semantics on every element dtype

WIDE = {"float64": [0.1, 1e300, -1e300, 1e-300, float("inf"), float("-inf"), float("nan"), 1 / 3, 2.5, -0.0, 7.0],
        "float32": [0.1, 3e38, -3e38, 1e-38, float("inf"), float("-inf"), float("nan"), 1 / 3, 2.5, -0.0, 7.0]}


def body_assign_dtype(case, ctx):
    """the assigned VALUES arrive unchanged, whatever the element dtype (floats: inf / nan / wide magnitudes / non-dyadic)"""
    from npstructures import RaggedArray
    a, r, c, kind, pool = case["a"], case["r"], case["c"], case["vk"], case["pool"]
    dt = a["dt"]
    lens = a["lens"]
    rows = np_rows(a)
    cells, rkind = addressed(lens, r, c)
    ctx.label(*gen.shape_labels(lens), "dt:" + dt, "v:" + kind, "r:" + sel_kind(r), "c:" + sel_kind(c))
    idx = c02.build_index(r, c, "plain" if c is None else "pair")
    ra = lazy_ra(rows, dt, case["tlazy"])
    if cells is None:
        ctx.nt()
        expect_refused(lib(ra.__setitem__, idx, np.dtype(dt).type(pool[0])), "assign-dtype", index=repr(idx))
        expect_unchanged(ra, rows, dt, "assign-dtype-refused")
        return
    flat = [x for row in cells for x in row]
    k = len(cells)
    pv = np.array(pool, dtype=dt)
    exp = [x.copy() for x in rows]
    if kind == "scalar" or rkind == "cell" or (kind in ("column", "ragged") and rkind != "rows"):
        kind = "scalar"
        value = pv[0]
        for i, j in flat:
            exp[i][j] = pv[0]
    elif kind == "flat":
        value = np.array([pv[t % len(pv)] for t in range(len(flat))], dtype=dt)
        for t, (i, j) in enumerate(flat):
            exp[i][j] = value[t]
    elif kind == "column":
        value = np.array([pv[t % len(pv)] for t in range(k)], dtype=dt).reshape(k, 1)
        for t, row in enumerate(cells):
            for i, j in row:
                exp[i][j] = value[t, 0]
    else:
        vrows, t = [], 0
        for row in cells:
            vrows.append(np.array([pv[(t + u) % len(pv)] for u in range(len(row))], dtype=dt))
            t += len(row)
        value = lazy_ra(vrows, dt, case["vlazy"])
        for row, vr in zip(cells, vrows):
            for (i, j), v in zip(row, vr):
                exp[i][j] = v
    SIB = {"float64": "int64", "float32": "int32", "int64": "float64", "int32": "float32", "int8": "uint8", "uint8": "int8", "int16": "uint16",
           "uint16": "int16", "uint32": "int32", "uint64": "int64"}
    if case.get("vsib") and kind in ("flat", "column") and dt in SIB and isinstance(value, np.ndarray) and value.size:
        # the same numbers handed over in another element type of the same width (int64 values into a float64 array ...):
        # they are assigned by value, as numpy does
        with np.errstate(all="ignore"):
            sib = value.astype(SIB[dt])
            exact = bool(np.all(np.isfinite(value.astype(np.float64)))) and bool(np.all(sib.astype(dt) == value)) and \
                bool(np.all(sib.astype(np.float64) == value.astype(np.float64)))
        if exact:
            value = sib
            ctx.label("value-dtype:same-width-other-kind")
    ctx.nt(0 < len(flat) and dt != "int64")
    out = lib(ra.__setitem__, idx, value)
    if not out.ok:
        raise Violation("assign-dtype:unexpected-refusal", got=out.brief(), index=repr(idx), value_kind=kind)
    got = lib(lambda: ([np.asarray(x) for x in ra], str(ra.dtype), [int(x) for x in ra.lengths]))
    if not got.ok:
        raise Violation("assign-dtype:array-unreadable-after", got=got.brief())
    grows, gdt, glens = got.value
    if glens != lens or not rows_equal(grows, exp):
        raise Violation("assign-dtype:content", expected=jsonable([e.tolist() for e in exp]), got=jsonable([g.tolist() for g in grows]),
                        index=repr(idx), value_kind=kind, dtype=dt)
    if sum(lens) and gdt != dt:
        raise Violation("assign-dtype:dtype-changed", got=gdt, expected=dt)


@st.composite
def assign_dtype_case(draw, tier):
    dt = draw(st.sampled_from(["float64", "float64", "float32", "int8", "uint8", "bool", "int32", "uint64", "int16"]))
    a = draw(gen.ragged(tier, dts=[dt]))
    n = len(a["lens"])
    L = max(a["lens"]) if a["lens"] else 0
    vsib = draw(st.integers(0, 3)) == 0
    e = st.sampled_from(WIDE[dt]) if dt in WIDE else gen.elem(dt)
    if vsib:
        e = st.integers(0, 100) if dt != "bool" else st.booleans()      # numbers every sibling type holds exactly
        if dt.startswith("float"):
            e = e.map(float)
    return {"a": a, "r": draw(gen.rowsel(n, norepeat=True)), "c": draw(gen.colsel(L)),
            "vk": draw(st.sampled_from(["scalar", "flat", "column", "column", "ragged"])),
            "pool": draw(st.lists(e, min_size=1, max_size=6)), "vsib": vsib,
            "tlazy": draw(st.sampled_from(LAZY_CHOICES)), "vlazy": draw(st.sampled_from([0, 0, 1, 2]))}


# ---------------------------------------------------------------- boolean ragged mask

def body_mask(case, ctx):
    lens, mask, kind, ml, tl = case["lens"], case["mask"], case["vk"], case["mlazy"], case["tlazy"]
    rows = poscoded(lens)
    mrows, c = [], 0
    for l in lens:
        mrows.append(mask[c:c + l])
        c += l
    cells = [(i, j) for i, mr in enumerate(mrows) for j, m in enumerate(mr) if m]
    exp = copy.deepcopy(rows)
    if kind == "scalar":
        value = -7
        for i, j in cells:
            exp[i][j] = -7
    else:
        vals = [-(100 + t) for t in range(len(cells))]
        value = np.array(vals, dtype=np.int64) if kind == "flat-array" else vals
        if kind == "flat-list" and not vals:
            value = -7
        for (i, j), v in zip(cells, vals):
            exp[i][j] = v
    ctx.label(*gen.shape_labels(lens), "v:" + kind, "mask-lazy" if ml else "mask-fresh")
    ctx.nt(0 < len(cells) < sum(lens))
    ra = lazy_ra(rows, "int64", tl)
    m = lazy_ra(mrows, "bool", ml)
    out = lib(ra.__setitem__, m, value)
    if not out.ok:
        raise Violation("mask-assign:unexpected-refusal", got=out.brief())
    got = lib(lambda: snapshot(ra))
    if not got.ok:
        raise Violation("mask-assign:array-unreadable-after", got=got.brief())
    grows, gdt, glens = got.value
    if glens != lens or not rows_equal(grows, exp):
        raise Violation("mask-assign:content", expected=exp, got=grows, mask=mrows)
    expect_unchanged(m, mrows, "bool", "mask-assign-mask")
    # ---- the same mask object, changed by ordinary cell assignments, used again: the second assignment follows the NEW mask
    flips = case.get("flip") or []
    allc = [(i, j) for i, l in enumerate(lens) for j in range(l)]
    if ml == 0 and flips and allc:
        ctx.label("mask-reused-after-change")
        mrows2 = [list(r) for r in mrows]
        for f in flips:
            i, j = allc[f % len(allc)]
            mrows2[i][j] = not mrows2[i][j]
            w = lib(m.__setitem__, (i, j), mrows2[i][j])
            if not w.ok:
                raise Violation("mask-assign:mask-cell-write-refused", got=w.brief())
        exp2 = copy.deepcopy(exp)
        for i, mr in enumerate(mrows2):
            for j, t in enumerate(mr):
                if t:
                    exp2[i][j] = -9
        out = lib(ra.__setitem__, m, -9)
        got = lib(lambda: snapshot(ra))
        if not out.ok or not got.ok:
            raise Violation("mask-assign:second-use-refused", got=(out if not out.ok else got).brief())
        if got.value[2] != lens or not rows_equal(got.value[0], exp2):
            raise Violation("mask-assign:second-use-content", expected=exp2, got=got.value[0], mask=mrows2, first_mask=mrows)
        expect_unchanged(m, mrows2, "bool", "mask-assign-mask-second")


@st.composite
def mask_case(draw, tier):
    lens = draw(gen.lengths(tier))
    tot = sum(lens)
    mask = draw(st.one_of(st.lists(st.booleans(), min_size=tot, max_size=tot),
                          st.just([False] * tot), st.just([True] * tot)))
    return {"lens": lens, "mask": mask, "vk": draw(st.sampled_from(["scalar", "flat-array", "flat-list"])),
            "mlazy": draw(st.sampled_from(LAZY_CHOICES)), "tlazy": draw(st.sampled_from(LAZY_CHOICES)),
            "flip": draw(st.lists(st.integers(0, 40), max_size=3))}


# ---------------------------------------------------------------- exhaustive small scope

def enum_chunks(tier):
    return c02.enum_shapes()


def enum_cases(lens):
    n = len(lens)
    cs = c02.enum_colsels()
    for r in c02.enum_rowsels(n, norepeat=True):
        for c in cs:
            if c is not None and c[0] == "s" and (c[3] in (3, -3) or (c[1] is not None and abs(c[1]) == 5) or (c[2] is not None and abs(c[2]) == 5)):
                continue  # thinned: bounds None,-4..4, steps None,+-1,+-2
            for vk in ("scalar", "column"):
                yield {"lens": lens, "r": r, "c": c, "vk": vk, "tlazy": 0, "vlazy": 0}


SUBCHECKS = [
    SubCheck("assign", body_assign, assign_case, quick=24000, thorough=1500000, shards_quick=14,
             doc="random shapes x repetition-free index grammar x 13 value kinds (incl. pending-view values and targets, "
                 "mismatching ragged values) vs coordinate model"),
    SubCheck("assign-dtype", body_assign_dtype, assign_dtype_case, quick=8000, thorough=500000, shards_quick=5,
             doc="scalar / flat / column / ragged values on every element dtype (floats: inf, nan, wide magnitudes, non-dyadic): values arrive unchanged"),
    SubCheck("assign-ragged-mask", body_mask, mask_case, quick=4000, thorough=300000, shards_quick=2,
             doc="ra[mask_ra] = scalar | flat values, masks fresh or pending views"),
    SubCheck("assign-enum", body_assign, kind="enum", chunks=enum_chunks, cases=enum_cases,
             doc="exhaustive: shapes <=3x3, repetition-free row selectors, column selectors with bounds None,-4..4 and "
                 "steps None,+-1,+-2, value kinds scalar and column vector"),
]
