"""C19  Results do not depend on the index-width configuration."""
import importlib

import numpy as np

from .. import oracle
from ..core import SubCheck, Violation, Ctx
from ..oracle import same, jsonable

RULE = ("Cases = the generated cases of every sub-check of C01-C09 (same strategies), each evaluated twice in one process: "
        "with ViewBase.set_dtype(np.int64) and with np.int32 (reset before and after every case).  Differential oracle: the "
        "sequence of outcomes of all guarded library calls of the owning check (returned values normalised to values / row "
        "lengths / dtype / kind; refusals by kind only) must be identical under both configurations.  Thorough adds the C02 "
        "exhaustive enumeration under both configurations.  Non-trivial = the case went through the width-dependent row gather "
        "(ViewBase._index_rows with a slice, list or mask), counted by a harness-side wrapper.")
ASSUMPTIONS = ["array sizes are far below 2**31", "a case on which the owning property's own oracle fails identically under both "
               "configurations is not a C19 violation (it is reported by the owning check)"]

SOURCES = ["c01", "c02", "c03", "c04", "c05", "c06", "c07", "c08", "c09"]

_gather = {"n": 0}
_patched = False


def _patch_counter():
    global _patched
    if _patched:
        return
    from npstructures.raggedshape import ViewBase
    orig = ViewBase._index_rows

    def counting(self, idx):
        if not isinstance(idx, (int, np.integer)):
            _gather["n"] += 1
        return orig(self, idx)
    ViewBase._index_rows = counting
    _patched = True


def run_config(sc, case, dtype):
    from npstructures.raggedshape import ViewBase
    ViewBase.set_dtype(dtype)
    rec = []
    oracle.RECORDER = rec
    ctx = Ctx()
    try:
        try:
            sc.body(case, ctx)
            rec.append(["body", "passed"])
        except Violation as v:
            rec.append(["body", "violation", v.kind])
        except Exception as e:  # noqa: BLE001 - compared, not swallowed: both configurations must behave alike
            rec.append(["body", "exception", type(e).__name__])
    finally:
        oracle.RECORDER = None
        ViewBase.set_dtype(np.int64)
    return rec, ctx


def make_body(sc):
    def body(case, ctx):
        from npstructures.raggedshape import ViewBase
        _patch_counter()
        ViewBase.set_dtype(np.int64)
        _gather["n"] = 0
        r64, c64 = run_config(sc, case, np.int64)
        g = _gather["n"]
        r32, _ = run_config(sc, case, np.int32)
        ctx.label("row-gather" if g else "no-row-gather", *[l for l in c64.labels if l.startswith(("r:", "kind:", "op:index", "f:", "route:"))][:6])
        ctx.nt(g > 0)
        if len(r64) != len(r32):
            raise Violation("index-width:different-number-of-outcomes", int64=jsonable(r64[-3:]), int32=jsonable(r32[-3:]), n64=len(r64), n32=len(r32))
        for i, (a, b) in enumerate(zip(r64, r32)):
            if not same(a, b):
                raise Violation("index-width:outcome-differs", call=i, int64=jsonable(a), int32=jsonable(b))
    return body


def enum_body(sc):
    return make_body(sc)


SUBCHECKS = []
for _m in SOURCES:
    _mod = importlib.import_module("vlib.props." + _m)
    for _sc in _mod.SUBCHECKS:
        if _sc.finding_id:
            continue
        if _sc.kind == "hyp":
            SUBCHECKS.append(SubCheck(_m.upper() + "." + _sc.name, make_body(_sc), _sc.strategy,
                                      quick=max(300, _sc.quick // 6), thorough=max(3000, _sc.thorough // 8),
                                      shards_quick=1, shards_thorough=4,
                                      doc="both index widths: " + _sc.doc))
        elif _sc.kind == "enum" and _m == "c02":
            SUBCHECKS.append(SubCheck(_m.upper() + "." + _sc.name, make_body(_sc), kind="enum", chunks=_sc.chunks, cases=_sc.cases,
                                      doc="both index widths, exhaustive: " + _sc.doc))
