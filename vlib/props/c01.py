"""C01  A RaggedArray holds exactly the rows it was built from."""
import os
import shutil
import tempfile

import numpy as np
from hypothesis import strategies as st

from .. import gen
from ..core import SubCheck, Violation
from ..oracle import LAYOUTS, layout, lib, np_rows, np_flat, observe, norm, same, diff_obs, expect_refused, jsonable

RULE = ("Cases = (row-length vector from the empty-row-placement templates, element dtype among bool/int8..uint64/"
        "float32/float64, element content incl. dtype extremes / nan / inf, construction route); every read-back "
        "(len, size, shape, lengths, dtype, iteration, tolist, ravel, astype to every dtype, to/from rectangular numpy "
        "array, save/load, equals) and the geometry object (starts, ends, size, flat<->(row,col) maps, index_array, "
        "to_dict/from_dict) is compared with the generating rows / the exclusive prefix sum of the lengths.  "
        "Non-trivial = at least two rows with both an empty and a non-empty row, or an expected refusal (buffer size "
        "mismatch)."
        "  Inputs also as F-ordered / transposed / strided matrices, strided 1-D buffers and row lengths given as an ndarray that the caller overwrites afterwards; the geometry maps are queried with generated position vectors (permutations, repeats); an astype result is written to and the source re-read, and vice versa.")
ASSUMPTIONS = ["dtype is compared only when the result has at least one element",
               "sizes <= ~3k elements; offsets near 2**31 are not explored"]

ROUTES = ["lists+dtype", "numpy-rows", "numpy-rows-infer", "flat+lengths", "flatlist+lengths", "flat+RaggedShape", "flat+tuple", "flat+np-lengths"]


def construct(case):
    from npstructures import RaggedArray, RaggedShape
    a, route = case["a"], case["route"]
    dt = a["dt"]
    rows = np_rows(a)
    flat = np_flat(a)
    lens = list(a["lens"])
    if route == "lists+dtype":
        return RaggedArray([r.tolist() for r in rows], dtype=dt)
    if route == "numpy-rows":
        return RaggedArray(rows, dtype=dt)
    if route == "numpy-rows-infer":      # element type taken from the rows themselves
        return RaggedArray(rows)
    if route == "flat+lengths":
        return RaggedArray(flat, lens)
    if route == "flatlist+lengths":
        return RaggedArray(flat.tolist(), lens, dtype=dt)
    if route == "flat+RaggedShape":
        return RaggedArray(flat, RaggedShape(lens))
    if route == "flat+tuple":
        return RaggedArray(flat, (len(lens), lens))
    if route == "flat+np-lengths":
        return RaggedArray(flat, np.array(lens, dtype=np.int32))
    raise ValueError(route)


def readbacks(ra, astype_to):
    """every way of reading an array back, as plain data"""
    out = {}
    out["len"] = len(ra)
    out["size"] = int(ra.size)
    out["shape0"] = int(ra.shape[0])
    out["shape1"] = [int(x) for x in ra.shape[1]]
    out["lengths"] = [int(x) for x in ra.lengths]
    out["ndim"] = ra.ndim
    out["iter"] = [norm(np.asarray(r)) for r in ra]
    out["tolist"] = ra.tolist()
    out["ravel"] = norm(ra.ravel())
    out["dtype"] = str(ra.dtype) if len(ra) else None
    t = ra.astype(astype_to)
    out["astype"] = norm(t)
    # a conversion result is an array of its own (numpy's astype contract): writing to it leaves the source alone, and vice versa
    t2 = ra.astype(astype_to)
    flat_t = t.ravel()
    if flat_t.size:
        flat_t[...] = 1 if not flat_t.astype(bool).any() else 0
    out["astype-source-after"] = ra.tolist()
    flat = ra.ravel()
    keep = flat.copy()
    if flat.size:
        flat[...] = 1 if not flat.astype(bool).any() else 0
    out["astype-after-source-write"] = norm(t2)
    flat[...] = keep
    return out


def expected_readbacks(a, astype_to):
    rows = np_rows(a)
    flat = np_flat(a)
    lens = [int(x) for x in a["lens"]]
    tot = sum(lens)
    out = {}
    out["len"] = len(lens)
    out["size"] = tot
    out["shape0"] = len(lens)
    out["shape1"] = lens
    out["lengths"] = lens
    out["ndim"] = 2
    out["iter"] = [norm(r) for r in rows]
    out["tolist"] = [r.tolist() for r in rows]
    out["ravel"] = norm(flat)
    out["dtype"] = a["dt"] if len(lens) else None
    out["astype"] = {"k": "ragged", "rows": [r.astype(astype_to).tolist() for r in rows], "lens": lens, "n": len(lens),
                     "dt": str(np.dtype(astype_to)) if len(lens) else None}
    out["astype-source-after"] = [r.tolist() for r in rows]
    out["astype-after-source-write"] = out["astype"]
    return out


def safe_to(case):
    """astype target; float -> integer conversion of a value outside the target's range (or nan/inf) is undefined
    behaviour in numpy (results differ between the vectorised and the scalar cast loop), so those cases convert to
    the source dtype instead"""
    a, to = case["a"], case["to"]
    if a["dt"].startswith("float") and to in gen.INT_DT:
        lo, hi = gen.int_range(to)
        for v in a["vals"]:
            if v != v or not (lo < v < hi) or (abs(v) >= 2.0**63 and not (to == "uint64" and 0 < v < 2.0**64)):
                return a["dt"]
    return to


def obs_build(case):
    """observable used by C19 as well"""
    def f():
        return readbacks(construct(case), safe_to(case))
    return observe(f)


def body_build(case, ctx):
    a = case["a"]
    ctx.label(*gen.shape_labels(a["lens"]), "dt:" + a["dt"], "route:" + case["route"])
    ctx.nt(gen.has_mixed_empty(a["lens"]))
    exp = expected_readbacks(a, safe_to(case))
    got = obs_build(case)
    if "refused" in got:
        raise Violation("build:unexpected-refusal", got=got)
    d = diff_obs(exp, got["ok"])
    if d:
        raise Violation("build:readback-differs", where=d)


@st.composite
def build_case(draw, tier):
    a = draw(gen.ragged(tier, wide=True))
    return {"a": a, "route": draw(st.sampled_from(ROUTES)), "to": draw(st.sampled_from(gen.ALL_DT))}


# ---------------------------------------------------------------- rectangular conversion, equals

def obs_rect(case):
    from npstructures import RaggedArray

    def f():
        mat = layout(np.array(case["vals"], dtype=case["dt"]).reshape(case["r"], case["c"]), case.get("layout", "C"))
        ra = RaggedArray.from_numpy_array(mat)
        back = ra.to_numpy_array()
        return {"rows": ra.tolist(), "lens": [int(x) for x in ra.lengths], "n": len(ra), "dt": str(ra.dtype) if len(ra) else None,
                "back": norm(back) if len(ra) else {"shape0": back.shape[0], "size": back.size}}
    return observe(f)


def body_rect(case, ctx):
    r, c = case["r"], case["c"]
    mat = np.array(case["vals"], dtype=case["dt"]).reshape(r, c)
    ctx.label("dt:" + case["dt"], "zero-rows" if r == 0 else "zero-cols" if c == 0 else "rect", "layout:" + case.get("layout", "C"))
    ctx.nt(r >= 2 or r == 0 or c == 0)
    exp = {"rows": mat.tolist(), "lens": [c] * r, "n": r, "dt": case["dt"] if r else None,
           "back": norm(mat) if r else {"shape0": 0, "size": 0}}
    got = obs_rect(case)
    if "refused" in got:
        raise Violation("rect:unexpected-refusal", got=got)
    d = diff_obs(exp, got["ok"])
    if d:
        raise Violation("rect:differs", where=d)


@st.composite
def rect_case(draw, tier):
    r = draw(st.integers(0, 6))
    c = draw(st.integers(0, 6))
    dt = draw(st.sampled_from(gen.ALL_DT))
    return {"r": r, "c": c, "dt": dt, "vals": draw(gen.flat_values(dt, r * c)),
            "layout": draw(st.sampled_from(LAYOUTS))}


def obs_to_numpy(case):
    def f():
        return norm(construct(case).to_numpy_array())
    return observe(f)


def body_to_numpy(case, ctx):
    """to_numpy_array of arrays built by any route: equal rows -> matrix; unequal rows -> refused"""
    a = case["a"]
    lens = a["lens"]
    got = obs_to_numpy(case)
    ctx.label("route:" + case["route"])
    if len(lens) == 0:
        ctx.label("zero-rows")
        if "refused" in got or got["ok"]["v"] != []:
            raise Violation("to_numpy:zero-rows", got=got)
        return
    if len(set(lens)) == 1:
        ctx.label("equal-rows")
        ctx.nt(len(lens) >= 2)
        exp = {"ok": norm(np_flat(a).reshape(len(lens), lens[0]))}
        if not same(exp, got):
            raise Violation("to_numpy:differs", expected=exp, got=got)
    else:
        ctx.label("unequal-rows")
        ctx.nt()
        if "refused" not in got:
            raise Violation("to_numpy:unequal-rows-accepted", got=got)


@st.composite
def to_numpy_case(draw, tier):
    n = draw(st.integers(0, 6))
    if draw(st.booleans()):
        lens = [draw(st.integers(0, 5))] * n
    else:
        lens = draw(st.lists(st.integers(0, 4), min_size=n, max_size=n))
    dt = draw(st.sampled_from(gen.ALL_DT))
    return {"a": {"lens": lens, "dt": dt, "vals": draw(gen.flat_values(dt, sum(lens)))}, "route": draw(st.sampled_from(ROUTES)), "to": dt}


# ---------------------------------------------------------------- buffer size mismatch is refused

def obs_mismatch(case):
    from npstructures import RaggedArray, RaggedShape

    def f():
        flat = np.zeros(case["n"], dtype=case["dt"])
        data = flat.tolist() if case["as_list"] else flat
        lens = list(case["lens"])
        if case["shape_as"] == "shape-reused":
            # the very RaggedShape object that already backs a correctly sized array
            shape = RaggedShape(lens)
            good = RaggedArray(np.zeros(sum(lens), dtype=case["dt"]), shape)
            good.tolist()
            shape = good._shape if case.get("via_array") else shape
        else:
            shape = {"list": lens, "shape": RaggedShape(lens), "tuple": (len(lens), lens)}[case["shape_as"]]
        return RaggedArray(data, shape).tolist()
    return observe(f)


def body_mismatch(case, ctx):
    tot = sum(case["lens"])
    ctx.label("buffer-longer" if case["n"] > tot else "buffer-shorter", "shape:" + case["shape_as"],
              "empty-buffer" if case["n"] == 0 else "nonempty-buffer", *gen.shape_labels(case["lens"]))
    ctx.nt()
    got = obs_mismatch(case)
    if "refused" not in got:
        raise Violation("mismatch:accepted", got=got, lens=case["lens"], buffer_size=case["n"])


@st.composite
def mismatch_case(draw, tier):
    lens = draw(gen.lengths(tier))
    tot = sum(lens)
    k = draw(st.integers(1, 4))
    n = tot + k if (tot - k < 0 or draw(st.booleans())) else tot - k
    n = draw(st.sampled_from([n, n, 0])) if tot else n
    if n == tot:
        n = tot + 1
    return {"lens": lens, "n": n, "dt": draw(st.sampled_from(["int64", "float64", "bool", "uint8"])),
            "as_list": draw(st.booleans()), "shape_as": draw(st.sampled_from(["list", "shape", "tuple", "shape-reused"])),
            "via_array": draw(st.booleans())}


# ---------------------------------------------------------------- geometry object

def query(case, tot):
    """a vector of flat positions: any order, repeats; often a permutation of all positions (ends kept or not)"""
    kind, a, b, extra = case.get("q", [0, 0, 0, []])
    base = list(range(tot))
    a, b = a % tot, b % tot
    if kind == 0:
        return [x % tot for x in extra]
    if kind == 1:
        base[a], base[b] = base[b], base[a]
    elif kind == 2 and tot > 2:
        base = [base[0]] + base[1:-1][::-1] + [base[-1]]
    elif kind == 3:
        base[b] = base[a]
    else:
        base = base[a:] + base[:a]
    return base


def obs_geometry(case):
    from npstructures import RaggedShape, RaggedArray

    def f():
        lens = list(case["lens"])
        sh = RaggedShape(lens) if case["via"] == "shape" else RaggedArray(np.arange(sum(lens)), lens)._shape
        tot = sum(lens)
        out = {"starts": [int(x) for x in sh.starts], "ends": [int(x) for x in sh.ends],
               "lengths": [int(x) for x in sh.lengths], "size": int(sh.size), "n_rows": int(sh.n_rows)}
        cells = [(i, j) for i, l in enumerate(lens) for j in range(l)]
        if cells:
            ii = np.array([c[0] for c in cells])
            jj = np.array([c[1] for c in cells])
            out["ravel_multi_index"] = [int(x) for x in sh.ravel_multi_index((ii, jj))]
            out["ravel_one"] = int(sh.ravel_multi_index((cells[case["k"] % len(cells)][0], cells[case["k"] % len(cells)][1])))
            r, c = sh.unravel_multi_index(np.arange(tot))
            out["unravel"] = [[int(x) for x in r], [int(x) for x in c]]
            r1, c1 = sh.unravel_multi_index(case["k"] % tot)
            out["unravel_one"] = [int(r1), int(c1)]
            q = query(case, tot)
            rq, cq = sh.unravel_multi_index(np.array(q, dtype=np.int64))
            out["unravel_query"] = [[int(x) for x in rq], [int(x) for x in cq]]
            out["ravel_query"] = [int(x) for x in sh.ravel_multi_index((ii[q], jj[q]))]
        out["index_array"] = [int(x) for x in sh.index_array()]
        d = sh.to_dict()
        sh2 = RaggedShape.from_dict({k: np.array(v) for k, v in d.items()})
        out["dict-roundtrip"] = [[int(x) for x in sh2.starts], [int(x) for x in sh2.lengths]]
        offsets = np.concatenate([[0], np.cumsum(np.array(lens, dtype=np.int64))]) if len(lens) else np.array([0])
        sh3 = RaggedShape.from_dict({"offsets": offsets})
        out["offsets-roundtrip"] = [[int(x) for x in sh3.starts], [int(x) for x in sh3.lengths]]
        out["eq"] = bool(sh == RaggedShape(lens))
        return out
    return observe(f)


def body_geometry(case, ctx):
    lens = case["lens"]
    ctx.label(*gen.shape_labels(lens), "via:" + case["via"])
    ctx.nt(gen.has_mixed_empty(lens))
    starts, c = [], 0
    for l in lens:
        starts.append(c)
        c += l
    tot = c
    exp = {"starts": starts, "ends": [s + l for s, l in zip(starts, lens)], "lengths": list(lens), "size": tot, "n_rows": len(lens)}
    cells = [(i, j) for i, l in enumerate(lens) for j in range(l)]
    if cells:
        exp["ravel_multi_index"] = list(range(tot))
        exp["ravel_one"] = case["k"] % len(cells)
        exp["unravel"] = [[i for i, _ in cells], [j for _, j in cells]]
        exp["unravel_one"] = list(cells[case["k"] % tot])
        q = query(case, tot)
        exp["unravel_query"] = [[cells[x][0] for x in q], [cells[x][1] for x in q]]
        exp["ravel_query"] = list(q)
    exp["index_array"] = [i for i, _ in cells]
    exp["dict-roundtrip"] = [starts, list(lens)]
    exp["offsets-roundtrip"] = [starts, list(lens)]
    exp["eq"] = True
    got = obs_geometry(case)
    if "refused" in got:
        raise Violation("geometry:unexpected-refusal", got=got, lens=lens)
    d = diff_obs(exp, got["ok"])
    if d:
        raise Violation("geometry:differs", where=d, lens=lens)


@st.composite
def geometry_case(draw, tier):
    return {"lens": draw(gen.lengths(tier)), "via": draw(st.sampled_from(["shape", "array"])), "k": draw(st.integers(0, 10000)),
            "q": [draw(st.integers(0, 4)), draw(st.integers(0, 1000)), draw(st.integers(0, 1000)), draw(st.lists(st.integers(0, 1000), max_size=8))]}


# ---------------------------------------------------------------- save / load, equals

SAVE_NAMES = [("a.npz", "b.npz"), ("counts_n.npz", "counts_p.npz"), ("run.z.npz", "run.p.npz"), ("x.npz", "xn.npz"), ("data1.npz", "data2.npz"),
              ("pz.npz", "zp.npz")]


def obs_saveload(case):
    from npstructures import RaggedArray

    def f():
        ra = construct(case)
        d = tempfile.mkdtemp(prefix="verif-c01-")
        try:
            # the file name is the caller's: a generated stem, with or without the extension; a second array is saved under a
            # sibling name before the first is loaded again
            names = SAVE_NAMES[(len(case["a"]["vals"]) + len(case["a"]["lens"])) % len(SAVE_NAMES)]
            fn, fn2 = os.path.join(d, names[0]), os.path.join(d, names[1])
            ra.save(fn)
            RaggedArray(np.array([7, 8, 9], dtype=np.int16), [1, 2]).save(fn2)
            back = RaggedArray.load(fn)
            other = RaggedArray.load(fn2)
            out = {"back": norm(back), "equals": bool(ra.equals(back)), "src": ra.tolist(), "other": other.tolist()}
        finally:
            shutil.rmtree(d, ignore_errors=True)
        return out
    return observe(f)


def body_saveload(case, ctx):
    a = case["a"]
    rows = np_rows(a)
    lens = [int(x) for x in a["lens"]]
    ctx.label(*gen.shape_labels(lens), "dt:" + a["dt"])
    ctx.nt(gen.has_mixed_empty(lens))
    got = obs_saveload(case)
    if "refused" in got:
        raise Violation("saveload:unexpected-refusal", got=got)
    g = got["ok"]
    exp_back = {"k": "ragged", "rows": [r.tolist() for r in rows], "lens": lens, "n": len(lens), "dt": a["dt"] if len(lens) else None}
    d = diff_obs(exp_back, g["back"])
    if d:
        raise Violation("saveload:differs", where=d)
    if g.get("other") != [[7], [8, 9]]:
        raise Violation("saveload:sibling-file-differs", got=g.get("other"))
    has_nan = a["dt"].startswith("float") and any(isinstance(v, float) and v != v for v in a["vals"])
    if not has_nan and g["equals"] is not True:
        raise Violation("saveload:equals-false", got=g)


def obs_equals(case):
    def f():
        x = construct({"a": case["a"], "route": "flat+lengths"})
        y = construct({"a": case["b"], "route": "flat+lengths"})
        return bool(x.equals(y))
    return observe(f)


def body_equals(case, ctx):
    """equals() is true exactly for equal rows (same row structure, same values)"""
    a, b = case["a"], case["b"]
    ra, rb = [r.tolist() for r in np_rows(a)], [r.tolist() for r in np_rows(b)]
    has_nan = any(isinstance(v, float) and v != v for v in a["vals"] + b["vals"])
    exp = (ra == rb) and not has_nan
    ctx.label("expect-equal" if exp else "expect-unequal", "same-flat-different-rows" if a["vals"] == b["vals"] and a["lens"] != b["lens"] else "other")
    ctx.nt(a["vals"] == b["vals"] and a["lens"] != b["lens"] or exp)
    if has_nan:
        return
    got = obs_equals(case)
    if exp:
        if got != {"ok": True}:
            raise Violation("equals:equal-arrays-not-equal", got=got)
    else:
        # different row structure may surface as False or as a refusal (numpy cannot compare the geometries)
        if got == {"ok": True}:
            raise Violation("equals:different-arrays-equal", a=ra, b=rb)


@st.composite
def equals_case(draw, tier):
    a = draw(gen.ragged(tier, dts=["int64", "int8", "float64", "bool"], specials=False, max_rows=5, max_len=4))
    mode = draw(st.integers(0, 3))
    if mode == 0:
        b = a
    elif mode == 1:   # same flat content and same number of rows, different row lengths
        n = len(a["lens"])
        tot = sum(a["lens"])
        cuts = sorted(draw(st.lists(st.integers(0, tot), min_size=max(n - 1, 0), max_size=max(n - 1, 0))))
        lens = [y - x for x, y in zip([0] + cuts, cuts + [tot])] if n else []
        b = {"lens": lens, "dt": a["dt"], "vals": a["vals"]}
    elif mode == 2:   # same structure, one value changed
        b = {"lens": a["lens"], "dt": a["dt"], "vals": draw(gen.flat_values(a["dt"], sum(a["lens"]), specials=False))}
    else:
        b = draw(gen.ragged(tier, dts=[a["dt"]], specials=False, max_rows=5, max_len=4))
    return {"a": a, "b": b}


SUBCHECKS = [
    SubCheck("build-readback", body_build, build_case, quick=14000, thorough=800000, shards_quick=8,
             doc="7 construction routes x all dtypes x all read-backs incl. astype to a generated dtype"),
    SubCheck("rectangular", body_rect, rect_case, quick=3000, thorough=150000, shards_quick=1,
             doc="from_numpy_array / to_numpy_array of (r, c) matrices incl. r=0 and c=0"),
    SubCheck("to-numpy", body_to_numpy, to_numpy_case, quick=3000, thorough=150000, shards_quick=1,
             doc="to_numpy_array on arrays built by any route; unequal rows are refused"),
    SubCheck("size-mismatch", body_mismatch, mismatch_case, quick=3000, thorough=150000, shards_quick=1,
             doc="flat buffer of size sum(lengths)+-k (k>=1) must be refused, for list / RaggedShape / tuple shapes"),
    SubCheck("geometry", body_geometry, geometry_case, quick=6000, thorough=400000, shards_quick=2,
             doc="RaggedShape starts/ends/size/n_rows, ravel/unravel_multi_index for every cell, index_array, to_dict/from_dict (codes and offsets forms)"),
    SubCheck("save-load", body_saveload, build_case, quick=1500, thorough=60000, shards_quick=2,
             doc="save -> load round trip through a temp dir (removed per case), equals"),
    SubCheck("equals", body_equals, equals_case, quick=3000, thorough=150000, shards_quick=1,
             doc="equals() true iff same rows; same flat content with different row lengths is not equal"),
]
