"""C18  An npdataclass keeps its columns aligned under every operation."""
import numpy as np
from hypothesis import strategies as st

from .. import gen
from ..core import SubCheck, Violation
from ..oracle import LAYOUTS, layout, lib, jsonable, arrays_equal, py_sel

RULE = ("Cases = dataclasses with 1-4 array fields (1-D or 2-D, int / float / bool dtypes, common length 0-8), a selector (int, "
        "slice with any bounds/step, int list with repeats and negatives, bool mask) or a list of 1-4 objects to concatenate "
        "(zero-length objects included), a narrower target class, field lists of unequal length, VarLenArrays of widths 1-5 "
        "with 0-4 rows.  Oracle = the tuple of field arrays: every operation is the same numpy operation on each field; len; "
        "iteration yields entry i of every field; == is true iff all fields are equal; VarLenArray concatenation right-aligns "
        "and left-zero-pads.  Non-trivial = at least two fields and a selector that reorders or drops entries (or a refusal)."
        "  VarLenArray operands in C / F / transposed / strided layouts; equality of a one-entry object with a longer object repeating it.")
ASSUMPTIONS = ["field content is finite (no NaN) so that == has its ordinary meaning"]

NAMES = "abcd"
_CLASSES = {}


def cls(k):
    if k not in _CLASSES:
        from npstructures import npdataclass
        ns = {"__annotations__": {NAMES[i]: np.ndarray for i in range(k)}}
        _CLASSES[k] = npdataclass(type("T%d" % k, (), ns))
    return _CLASSES[k]


def field_arrays(fields, n):
    out = []
    for f in fields:
        w = f["w"]
        size = n * (w or 1)
        arr = np.array(f["vals"][:size], dtype=f["dt"]) if size else np.zeros(0, dtype=f["dt"])
        out.append(arr.reshape(n, w) if w else arr)
    return out


def fields_of(obj, k):
    return [np.asarray(getattr(obj, NAMES[i])) for i in range(k)]


def expect_fields(got, exp, what, **info):
    if not got.ok:
        raise Violation(what + ":unexpected-refusal", got=got.brief(), **info)
    k = len(exp)
    r = lib(lambda: (fields_of(got.value, k), len(got.value)))
    if not r.ok:
        raise Violation(what + ":unreadable", got=r.brief(), **info)
    fs, n = r.value
    for i, (g, e) in enumerate(zip(fs, exp)):
        if g.shape != e.shape or not arrays_equal(g, e) or g.dtype != e.dtype:
            raise Violation(what + ":field", field=NAMES[i], expected=jsonable(e), got=jsonable(g), **info)
    if exp[0].ndim and n != len(exp[0]):
        raise Violation(what + ":len", expected=len(exp[0]), got=n, **info)


def body_build(case, ctx):
    fs = field_arrays(case["fields"], case["n"])
    k = len(fs)
    ctx.label("k:%d" % k, "n=0" if case["n"] == 0 else "n>0", "has-2d" if any(f.ndim == 2 for f in fs) else "all-1d")
    ctx.nt(k >= 2)
    got = lib(lambda: cls(k)(*[f.copy() for f in fs]) if not case["as_list"] else cls(k)(*[f.tolist() if f.ndim == 1 and f.size else f.copy() for f in fs]))
    if case["as_list"]:
        # lists lose the small dtypes; compare values and lengths only
        if not got.ok or len(got.value) != case["n"]:
            raise Violation("build:from-lists", got=got.brief())
        for g, e in zip(fields_of(got.value, k), fs):
            if g.shape != e.shape or not arrays_equal(g, e):
                raise Violation("build:from-lists-values", expected=jsonable(e), got=jsonable(g))
    else:
        expect_fields(got, fs, "build")
    obj = got.value
    it = lib(lambda: [fields_of(e, k) for e in obj])
    if not it.ok or len(it.value) != case["n"]:
        raise Violation("iter:length", got=it.brief(), expected=case["n"])
    for i, entry in enumerate(it.value):
        for j in range(k):
            if entry[j].shape != fs[j][i].shape or not arrays_equal(entry[j], fs[j][i]):
                raise Violation("iter:entry", i=i, field=NAMES[j], expected=jsonable(fs[j][i]), got=jsonable(entry[j]))


def body_mismatch(case, ctx):
    fs = field_arrays(case["fields"], case["n"])
    k = len(fs)
    # every field gets its own change of length (at least one differs from the others): one odd field, several, deviations
    # that cancel (2, 1, 3), all but one changed ...
    deltas = [case["deltas"][i % len(case["deltas"])] for i in range(k)]
    if len(set(deltas)) == 1:
        deltas[case["odd"] % k] += case["delta"]

    def resize(f, d):
        if d > 0:
            return np.concatenate([f, np.zeros((d,) + f.shape[1:], dtype=f.dtype)])
        return f[:max(len(f) + d, 0)]
    fs = [resize(f, d) for f, d in zip(fs, deltas)]
    lens = [len(f) for f in fs]
    if len(set(lens)) == 1:        # clipping at length 0 may have made them equal again
        fs[case["odd"] % k] = resize(fs[case["odd"] % k], 1)
        lens = [len(f) for f in fs]
    ctx.label("k:%d" % k, "deviating-fields:%d" % sum(1 for l in lens if l != lens[0]), "sum-of-deviations-zero" if sum(l - lens[0] for l in lens) == 0 else "sum-nonzero")
    ctx.nt()
    got = lib(lambda: cls(k)(*fs))
    if got.ok:
        raise Violation("mismatch:accepted", lengths=lens)


def body_select(case, ctx):
    fs = field_arrays(case["fields"], case["n"])
    k, n = len(fs), case["n"]
    sel = case["sel"]
    obj = cls(k)(*[f.copy() for f in fs])
    idx = py_sel(sel)
    ctx.label("k:%d" % k, "sel:" + sel[0] + (":list" if sel[0] == "m" and not sel[2] else ""))
    if sel[0] == "i":
        exp = [f[sel[1]] for f in fs]
        ctx.nt(k >= 2)
        got = lib(lambda: obj[idx])
        if not got.ok:
            raise Violation("select:int-refused", got=got.brief(), i=sel[1])
        g = fields_of(got.value, k)
        for j in range(k):
            if g[j].shape != exp[j].shape or not arrays_equal(g[j], exp[j]):
                raise Violation("select:int-entry", i=sel[1], field=NAMES[j], expected=jsonable(exp[j]), got=jsonable(g[j]))
    else:
        npidx = np.array(sel[1], dtype=np.int64) if sel[0] == "l" else (np.array(sel[1], dtype=bool) if sel[0] == "m" else idx)
        exp = [f[npidx] for f in fs]
        ctx.nt(k >= 2 and not (len(exp[0]) == n and arrays_equal(exp[0], fs[0])))
        expect_fields(lib(lambda: obj[idx]), exp, "select", sel=sel)
    expect_fields(lib(lambda: obj), fs, "select-source-after")


def body_concat(case, ctx):
    parts = [field_arrays(case["fields"], n) for n in case["ns"]]
    # every part uses its own slice of the value pool so that the parts differ
    off = 0
    built = []
    for n in case["ns"]:
        fs = []
        for f in case["fields"]:
            w = f["w"] or 1
            vals = (f["vals"] * 3)[off:off + n * w]
            arr = np.array(vals, dtype=f["dt"]) if n else np.zeros(0, dtype=f["dt"])
            fs.append(arr.reshape(n, f["w"]) if f["w"] else arr)
        off += 3
        built.append(fs)
    k = len(case["fields"])
    objs = [cls(k)(*[f.copy() for f in fs]) for fs in built]
    exp = [np.concatenate([fs[j] for fs in built]) for j in range(k)]
    ctx.label("k:%d" % k, "parts:%d" % len(built), "zero-length-part" if 0 in case["ns"] else "all-nonempty")
    ctx.nt(k >= 2 and len(built) >= 2)
    expect_fields(lib(lambda: np.concatenate(objs)), exp, "concatenate")
    for o, fs in zip(objs, built):
        expect_fields(lib(lambda: o), fs, "concatenate-part-after")


def body_eq(case, ctx):
    fs = field_arrays(case["fields"], case["n"])
    k, n = len(fs), case["n"]
    o1 = cls(k)(*[f.copy() for f in fs])
    mode = case["mode"]
    fs2 = [f.copy() for f in fs]
    expect = True
    if mode == "change" and n and any(f.size for f in fs2):
        j = case["j"] % k
        if fs2[j].size:
            flat = fs2[j].reshape(-1)
            p = case["p"] % flat.size
            flat[p] = (not flat[p]) if flat.dtype == bool else flat[p] + 1
            expect = False
    elif mode == "shorter" and n:
        fs2 = [f[:-1] for f in fs2]
        expect = False
    if mode == "views" and n >= 2:
        # two overlapping selections of the SAME object: equal exactly when their contents are
        i, j = case["j"] % n, case["p"] % n
        L = 1 + (case["j"] + case["p"]) % (n - max(i, j))
        va, vb = o1[i:i + L], o1[j:j + L]
        expect = all(np.array_equal(f[i:i + L], f[j:j + L]) for f in fs)
        ctx.label("k:%d" % k, "views:" + ("same-window" if i == j else "shifted-window"), "expect-equal" if expect else "expect-unequal:views")
        ctx.nt(i != j)
        got = lib(lambda: va == vb)
        if not got.ok or bool(got.value) != expect:
            raise Violation("eq:overlapping-views", expected=expect, got=got.brief(), windows=[i, j, L])
        return
    if mode in ("other-dtype-same", "other-dtype-differs") and n >= 1:
        # the same field held in another element type: equal numbers are equal, a difference of one half is a difference -
        # whichever object stands on the left
        ints = [j for j, f in enumerate(fs) if f.dtype.kind in "iu" and f.size and int(np.abs(f.astype(np.float64)).max()) < 2**40]
        if ints:
            j = ints[case["j"] % len(ints)]
            other = fs[j].astype(np.float64)
            if mode == "other-dtype-differs":
                flat = other.reshape(-1)
                flat[case["p"] % flat.size] += 0.5
            fs2[j] = other
            expect = mode == "other-dtype-same"
            ctx.label("k:%d" % k, "expect-equal" if expect else "expect-unequal:" + mode)
            ctx.nt()
            o2 = cls(k)(*fs2)
            for name, f in (("left", lambda: o1 == o2), ("right", lambda: o2 == o1)):
                got = lib(f)
                if not got.ok or bool(got.value) != expect:
                    raise Violation("eq:other-dtype", expected=expect, got=got.brief(), mode=mode, int_field_on=name)
            return
    if mode == "entry-width-differs" and n >= 1:
        # one field holds entries of another width whose values broadcast onto the other object's: (n, 1) against (n, w) with every
        # column repeating the first, or (n,) against (n, n) with every row repeating the 1-D field - entry i differs, hence not equal
        j = case["j"] % k
        col = fs[j].reshape(n, -1)[:, :1].copy()
        if case["p"] % 2 and n >= 2:
            a, b, form = col[:, 0].copy(), np.tile(col[:, 0], (n, 1)), "1-D vs (n, n)"
        else:
            a, b, form = col, np.repeat(col, 2 + case["p"] % 3, axis=1), "(n, 1) vs (n, w)"
        fa, fb = [f.copy() for f in fs], [f.copy() for f in fs]
        fa[j], fb[j] = a, b
        oa, ob = cls(k)(*fa), cls(k)(*fb)
        ctx.label("k:%d" % k, "expect-unequal:" + mode, "width-form:" + form)
        ctx.nt()
        for name, f in (("narrow-left", lambda: oa == ob), ("narrow-right", lambda: ob == oa)):
            got = lib(f)
            if not got.ok or bool(got.value):
                raise Violation("eq:entry-width-differs", expected=False, got=got.brief(), form=form, field=j, order=name)
        return
    if mode in ("one-vs-repeats", "repeats-vs-one") and n >= 1:
        # a one-entry object against a longer object whose every entry repeats it: different lengths, hence not equal
        m = 2 + case["p"] % 3
        one = [f[:1].copy() for f in fs]
        rep = [np.repeat(f[:1], m, axis=0) for f in fs]
        o1 = cls(k)(*(one if mode == "one-vs-repeats" else rep))
        fs2 = rep if mode == "one-vs-repeats" else one
        expect = False
    ctx.label("k:%d" % k, "expect-equal" if expect else "expect-unequal:" + mode)
    ctx.nt(k >= 2)
    o2 = cls(k)(*fs2)
    got = lib(lambda: o1 == o2)
    if not got.ok or bool(got.value) != expect:
        raise Violation("eq:value", expected=expect, got=got.brief(), mode=mode)


_TARGETS = {}


def target_cls(names):
    """a narrower dataclass declaring the given fields in the given order"""
    key = tuple(names)
    if key not in _TARGETS:
        from npstructures import npdataclass
        ns = {"__annotations__": {n: np.ndarray for n in names}}
        _TARGETS[key] = npdataclass(type("N_" + "".join(names), (), ns))
    return _TARGETS[key]


def body_astype(case, ctx):
    fs = field_arrays(case["fields"], case["n"])
    k = len(fs)
    order = []
    for i in case["order"]:
        if NAMES[i % k] not in order:
            order.append(NAMES[i % k])
    if len(order) == k and order == list(NAMES[:k]):
        order = order[:-1]
    ctx.label("from:%d" % k, "to:%d" % len(order), "same-order" if order == sorted(order) else "reordered")
    ctx.nt(order != sorted(order) or len(order) >= 2)
    obj = cls(k)(*[f.copy() for f in fs])
    T = target_cls(order)
    got = lib(lambda: obj.astype(T))
    if not got.ok:
        raise Violation("astype:unexpected-refusal", got=got.brief(), target=order)
    for name in order:
        g = np.asarray(getattr(got.value, name))
        e = fs[NAMES.index(name)]
        if g.shape != e.shape or not arrays_equal(g, e) or g.dtype != e.dtype:
            raise Violation("astype:field", field=name, target=order, expected=jsonable(e), got=jsonable(g))
    if not isinstance(got.value, T) or len(got.value) != case["n"]:
        raise Violation("astype:class-or-len", got=repr(type(got.value)))


def body_varlen(case, ctx):
    from npstructures import VarLenArray
    arrs = [layout(np.array(p["vals"][:p["r"] * p["w"]], dtype=case["dt"]).reshape(p["r"], p["w"]), p.get("layout", "C")) for p in case["parts"]]
    ctx.label(*["layout:" + p.get("layout", "C") for p in case["parts"]])
    W = max(a.shape[1] for a in arrs)
    exp = np.concatenate([np.pad(a, ((0, 0), (W - a.shape[1], 0))) for a in arrs])
    ctx.label("parts:%d" % len(arrs), "same-width" if len({a.shape[1] for a in arrs}) == 1 else "different-widths",
              "zero-row-part" if any(a.shape[0] == 0 for a in arrs) else "all-have-rows")
    ctx.nt(len({a.shape[1] for a in arrs}) > 1)
    got = lib(lambda: np.concatenate([VarLenArray(a.copy(order="K")) for a in arrs]))
    if not got.ok or not isinstance(got.value, VarLenArray):
        raise Violation("varlen:result", got=got.brief())
    g = np.asarray(got.value.array)
    if g.shape != exp.shape or not arrays_equal(g, exp) or g.dtype != exp.dtype:
        raise Violation("varlen:values", expected=jsonable(exp), got=jsonable(g))


FDT = ["int64", "int8", "uint16", "float64", "float32", "bool"]


@st.composite
def fields_st(draw, min_k=1, max_n=8):
    k = draw(st.integers(min_k, 4))
    n = draw(st.integers(0, max_n))
    fields = []
    for _ in range(k):
        dt = draw(st.sampled_from(FDT))
        w = draw(st.sampled_from([0, 0, 0, 1, 2, 3]))
        fields.append({"dt": dt, "w": w, "vals": draw(gen.flat_values(dt, max_n * 3, specials=False))})
    return fields, n


@st.composite
def build_case(draw, tier):
    fields, n = draw(fields_st())
    return {"fields": fields, "n": n, "as_list": draw(st.sampled_from([False, False, True]))}


@st.composite
def mismatch_case(draw, tier):
    fields, n = draw(fields_st(min_k=2))
    return {"fields": fields, "n": n, "odd": draw(st.integers(0, 3)), "delta": draw(st.sampled_from([1, 2, -1, -2])),
            "deltas": draw(st.lists(st.sampled_from([0, 0, 1, -1, 2, -2]), min_size=1, max_size=4))}


@st.composite
def select_case(draw, tier):
    fields, n = draw(fields_st())
    if n == 0:
        sel = draw(st.one_of(gen.slice_st(0), st.just(["l", [], "int64"]), st.just(["m", [], True])))
    else:
        sel = draw(st.one_of(st.tuples(st.integers(-n, n - 1), st.booleans()).map(lambda t: ["i", t[0], t[1]]), gen.slice_st(n), gen.slice_st(n),
                             st.tuples(st.lists(st.integers(-n, n - 1), max_size=n + 2), st.sampled_from(["list", "int64"])).map(lambda t: ["l", t[0], t[1]]),
                             st.tuples(st.lists(st.booleans(), min_size=n, max_size=n), st.booleans()).map(lambda t: ["m", t[0], t[1]])))
        if sel[0] == "l" and not sel[1]:
            sel[2] = "int64"
    return {"fields": fields, "n": n, "sel": sel}


@st.composite
def concat_case(draw, tier):
    fields, _ = draw(fields_st(max_n=5))
    return {"fields": fields, "ns": draw(st.lists(st.integers(0, 5), min_size=1, max_size=4))}


@st.composite
def eq_case(draw, tier):
    fields, n = draw(fields_st())
    return {"fields": fields, "n": n, "mode": draw(st.sampled_from(["same", "change", "change", "shorter", "views", "views", "one-vs-repeats", "repeats-vs-one", "entry-width-differs", "entry-width-differs", "other-dtype-same", "other-dtype-differs"])),
            "j": draw(st.integers(0, 3)), "p": draw(st.integers(0, 1000))}


@st.composite
def astype_case(draw, tier):
    fields, n = draw(fields_st(min_k=2))
    return {"fields": fields, "n": n, "order": draw(st.lists(st.integers(0, 3), min_size=1, max_size=4))}


@st.composite
def varlen_case(draw, tier):
    dt = draw(st.sampled_from(["int64", "uint8", "float64"]))
    parts = []
    for _ in range(draw(st.integers(1, 4))):
        r, w = draw(st.integers(0, 4)), draw(st.integers(1, 5))
        parts.append({"r": r, "w": w, "vals": draw(gen.flat_values(dt, 20, specials=False)), "layout": draw(st.sampled_from(LAYOUTS))})
    return {"dt": dt, "parts": parts}


SUBCHECKS = [
    SubCheck("build-iter", body_build, build_case, quick=4000, thorough=200000, shards_quick=3, doc="construction, len, field read-back, iteration entry by entry"),
    SubCheck("unequal-lengths-refused", body_mismatch, mismatch_case, quick=2000, thorough=80000, shards_quick=1, doc="fields of different length are refused whichever field is the odd one"),
    SubCheck("select", body_select, select_case, quick=6000, thorough=300000, shards_quick=4, doc="int / slice / list / mask selectors act on every field alike"),
    SubCheck("concatenate", body_concat, concat_case, quick=3000, thorough=150000, shards_quick=2, doc="np.concatenate of 1-4 objects concatenates every field"),
    SubCheck("equality", body_eq, eq_case, quick=3000, thorough=150000, shards_quick=2, doc="== true iff all fields equal (one changed cell / shorter object -> False)"),
    SubCheck("astype", body_astype, astype_case, quick=2000, thorough=80000, shards_quick=1, doc="astype(narrower dataclass) keeps the shared fields"),
    SubCheck("varlen-concatenate", body_varlen, varlen_case, quick=3000, thorough=150000, shards_quick=2, doc="VarLenArray concatenation right-aligns narrower arrays and left-pads with zeros"),
]
