"""C13  Bit-packing is lossless and position-addressable."""
import numpy as np
from hypothesis import strategies as st

from .. import gen
from ..core import SubCheck, Violation
from ..oracle import lib, jsonable

RULE = ("Cases = (bit width b in {1,2,4,8,16,32}, length n covering every residue modulo 64/b incl. 0 and a tail to 300, "
        "input integer dtype able to hold b-bit values, values uniform in [0, 2**b) with all-ones / all-zero registers forced, "
        "position (int, Python or numpy), position list/array with repeats, window size 1..64/b).  Oracle = the unpacked "
        "Python list: unpack() == a; p[i] == a[i]; p[list].unpack() == a[list]; sliding_window(w)[i] == sum(a[i+j] << (b*j)) "
        "for every i in 0..n-w and no entries when n < w.  Non-trivial = n is not a multiple of 64/b, or a window straddles a "
        "64-bit register boundary."
        "  b and w as Python ints or numpy int64 / intp scalars; the packed input must be unchanged by pack and is overwritten by the caller afterwards, as is every array a read returned.")
ASSUMPTIONS = ["negative positions are refused by the library (OverflowError) and are not part of the property",
               "b and w are Python ints (the documented parameter type) or numpy's 64-bit signed scalars (int64 / intp), which behave like "
               "Python ints at these magnitudes; narrower numpy scalars (uint8(16), int32(32)) make 2**b wrap in the caller's own type "
               "before the library sees a usable value and are not claimed"]

WIDTHS = [1, 2, 4, 8, 16, 32]


def dtypes_for(b):
    out = []
    for dt in gen.INT_DT:
        lo, hi = gen.int_range(dt)
        if hi >= 2**b - 1:
            out.append(dt)
    return out


def pack(case):
    from npstructures import BitArray
    arr = np.array(case["vals"], dtype=case["dt"]) if case["vals"] else np.zeros(0, dtype=case["dt"])
    if case.get("swapped"):
        arr = arr.astype(arr.dtype.newbyteorder())     # same values, non-native byte order
    before = arr.copy()
    p = BitArray.pack(arr, as_int(case["b"], case.get("b_as", "py")))
    if arr.dtype != before.dtype or arr.shape != before.shape or not np.array_equal(arr, before):
        raise Violation("pack:input-modified", before=[int(x) for x in before[:40]], after=[int(x) for x in arr[:40]], b=case["b"])
    arr[...] = 0 if arr.any() else 1      # the input stays the caller's: the packed object must not follow later writes to it
    return p


def as_int(v, how):
    """the same integer as a Python int or a numpy integer scalar"""
    return v if how == "py" else np.dtype(how).type(v)


def classify(case, ctx):
    b, n = case["b"], len(case["vals"])
    per = 64 // b
    ctx.label("b:%d" % b, "dt:" + case["dt"], "n=0" if n == 0 else "partial-register" if n % per else "full-registers",
              "multi-register" if n > per else "single-register", "byte-swapped" if case.get("swapped") else "native-order")
    return per


def body_roundtrip(case, ctx):
    per = classify(case, ctx)
    a = case["vals"]
    n = len(a)
    ctx.nt(n % per != 0)
    got = lib(lambda: pack(case).unpack())
    if not got.ok:
        raise Violation("roundtrip:unexpected-refusal", got=got.brief())
    v = np.asarray(got.value)
    if v.shape != (n,) or [int(x) for x in v] != a:
        raise Violation("roundtrip:values", expected=a, got=jsonable(v))


def body_getitem(case, ctx):
    per = classify(case, ctx)
    a = case["vals"]
    n = len(a)
    pos = case["pos"]
    ctx.nt(n % per != 0)
    p = lib(pack, case)
    if not p.ok:
        raise Violation("getitem:pack-refused", got=p.brief())
    p = p.value
    if pos[0] == "int":
        i = pos[1] % n
        ctx.label("pos:int" + (":np" if pos[2] else ""))
        got = lib(lambda: p[np.int64(i) if pos[2] else i])
        if not got.ok or int(got.value) != a[i]:
            raise Violation("getitem:int", i=i, expected=a[i], got=got.brief())
    else:
        idx = [k % n for k in pos[1]]
        ctx.label("pos:" + pos[2], "empty-list" if not idx else "repeats" if len(set(idx)) < len(idx) else "distinct")
        obj = list(idx) if pos[2] == "list" else np.array(idx, dtype=pos[2] if n <= 256 else "int64")
        got = lib(lambda: p[obj].unpack())
        if not got.ok:
            raise Violation("getitem:list-refused", idx=idx, got=got.brief())
        v = np.asarray(got.value)
        if v.shape != (len(idx),) or [int(x) for x in v] != [a[k] for k in idx]:
            raise Violation("getitem:list", idx=idx, expected=[a[k] for k in idx], got=jsonable(v))
    again = lib(lambda: [int(x) for x in p.unpack()])
    if not again.ok or again.value != a:
        raise Violation("getitem:source-changed", got=again.brief())


def window_expected(a, b, w):
    return [sum(a[i + j] << (b * j) for j in range(w)) for i in range(len(a) - w + 1)]


def body_window(case, ctx):
    per = classify(case, ctx)
    a, b, w = case["vals"], case["b"], case["w"]
    n = len(a)
    exp = window_expected(a, b, w) if n >= w else []
    ctx.label("w=1" if w == 1 else "w=max" if w == per else "w:mid", "n<w" if n < w else "n>=w")
    ctx.nt(n % per != 0 or (n > per and w > 1))
    ctx.label("w-as:" + case.get("w_as", "py"), "b-as:" + case.get("b_as", "py"))
    got = lib(lambda: pack(case).sliding_window(as_int(w, case.get("w_as", "py"))))
    if not got.ok:
        raise Violation("window:unexpected-refusal", got=got.brief(), w=w)
    v = np.asarray(got.value)
    if v.ndim != 1 or [int(x) for x in v] != exp:
        raise Violation("window:values", w=w, b=b, expected=exp[:40], got=[int(x) for x in v.ravel()[:40]], n=n)


INT_AS = st.sampled_from(["py", "py", "py", "int64", "intp"])


@st.composite
def bit_case(draw, tier, need_n=0):
    b = draw(st.sampled_from(WIDTHS))
    per = 64 // b
    nmax = 3 * per + 3
    n = draw(st.one_of(st.integers(need_n, nmax), st.integers(need_n, nmax), st.integers(need_n, 300 if tier == "thorough" else 140)))
    dt = draw(st.sampled_from(dtypes_for(b)))
    top = 2**b - 1
    mode = draw(st.integers(0, 5))
    if mode == 0:
        vals = [top] * n
    elif mode == 1:
        vals = [0] * n
    else:
        e = st.one_of(st.integers(0, top), st.sampled_from([0, top, 1, top >> 1]))
        vals = draw(st.lists(e, min_size=n, max_size=n))
    return {"b": b, "dt": dt, "vals": vals, "swapped": draw(st.sampled_from([False, False, False, True])), "b_as": draw(INT_AS)}


@st.composite
def getitem_case(draw, tier):
    case = draw(bit_case(tier, need_n=1))
    pos = draw(st.one_of(
        st.tuples(st.just("int"), st.integers(0, 10**6), st.booleans()).map(list),
        st.tuples(st.just("list"), st.lists(st.integers(0, 10**6), max_size=12), st.sampled_from(["list", "int64", "int32", "uint8", "intp"])).map(list)))
    if pos[0] == "list" and not pos[1] and pos[2] == "list":
        pos[2] = "int64"   # an empty Python list carries no integer dtype
    case["pos"] = pos
    return case


@st.composite
def window_case(draw, tier):
    case = draw(bit_case(tier))
    case["w"] = draw(st.integers(1, 64 // case["b"]))
    case["w_as"] = draw(INT_AS)
    return case


def read_own(arr):
    """the values of an array the library returned, as Python ints; the array is the caller's and is overwritten afterwards"""
    arr = np.asarray(arr)
    out = [int(x) for x in arr]
    if arr.size and arr.flags.writeable:
        arr[...] = 0 if arr.any() else 1
    return out


def body_sequence(case, ctx):
    """several reads of ONE packed object in a generated order: no read may change what a later read returns"""
    per = classify(case, ctx)
    a, b = case["vals"], case["b"]
    n = len(a)
    ctx.nt(n > per and len(case["ops"]) >= 2)
    p = lib(pack, case)
    if not p.ok:
        raise Violation("sequence:pack-refused", got=p.brief())
    p = p.value
    for k, op in enumerate(case["ops"]):
        ctx.label("seq:" + op[0])
        if op[0] == "sub":
            # continue with the packed array of a position list (indexing is closed: a packed array again)
            idx = [t % n for t in op[1]]
            sub = lib(lambda: p[np.array(idx, dtype=np.int64)])
            if not sub.ok:
                raise Violation("sequence:sub-selection-refused", step=k, got=sub.brief())
            p, a = sub.value, [a[t] for t in idx]
            n = len(a)
            continue
        if op[0] == "unpack":
            got = lib(lambda: read_own(p.unpack()))
            exp = a
        elif op[0] == "window":
            w = 1 + op[1] % per
            got = lib(lambda: read_own(p.sliding_window(w)))
            exp = window_expected(a, b, w) if n >= w else []
        elif op[0] == "int":
            i = op[1] % n
            got = lib(lambda: int(p[i]))
            exp = a[i]
        else:
            idx = [t % n for t in op[1]]
            got = lib(lambda: read_own(p[np.array(idx, dtype=np.int64)].unpack()))
            exp = [a[t] for t in idx]
        if not got.ok or got.value != exp:
            raise Violation("sequence:step", step=k, op=op, expected=exp if not isinstance(exp, list) else exp[:40], got=got.brief(), before=case["ops"][:k])


@st.composite
def sequence_case(draw, tier):
    case = draw(bit_case(tier, need_n=1))
    op = st.one_of(st.just(["unpack"]), st.tuples(st.just("window"), st.integers(0, 63)).map(list),
                   st.tuples(st.just("int"), st.integers(0, 10**6)).map(list),
                   st.tuples(st.just("list"), st.lists(st.integers(0, 10**6), min_size=1, max_size=5)).map(list),
                   st.tuples(st.just("sub"), st.lists(st.integers(0, 10**6), min_size=1, max_size=40)).map(list))
    case["ops"] = draw(st.lists(op, min_size=2, max_size=5))
    return case


# ---------------------------------------------------------------- exhaustive small scope

def enum_chunks(tier):
    return [[b, n] for b in WIDTHS for n in range(0, 2 * (64 // b) + 3)]


def enum_cases_window(chunk):
    b, n = chunk
    top = 2**b - 1
    for pat in (0, 1):
        vals = [top] * n if pat == 0 else [(3 * i + 1) & top for i in range(n)]
        for w in range(1, 64 // b + 1):
            yield {"b": b, "dt": "uint64", "vals": vals, "w": w}


def body_enum_all(case, ctx):
    body_window(case, ctx)
    if case["w"] == 1:
        body_roundtrip(case, ctx)
        for i in range(len(case["vals"])):
            c = dict(case)
            c["pos"] = ["int", i, False]
            body_getitem(c, ctx)


SUBCHECKS = [
    SubCheck("roundtrip", body_roundtrip, bit_case, quick=6000, thorough=150000, shards_quick=3,
             doc="pack -> unpack returns the values in order and number, every b / length residue / input dtype"),
    SubCheck("getitem", body_getitem, getitem_case, quick=8000, thorough=200000, shards_quick=4,
             doc="p[i] (Python / numpy int) and p[list or int array with repeats].unpack()"),
    SubCheck("sliding-window", body_window, window_case, quick=8000, thorough=200000, shards_quick=4,
             doc="sliding_window(w) for every w in 1..64/b incl. windows across register boundaries and n < w"),
    SubCheck("read-sequence", body_sequence, sequence_case, quick=5000, thorough=200000, shards_quick=3,
             doc="2-5 reads (unpack / sliding_window / p[i] / p[list]) of ONE packed object in generated order, each against the model"),
    SubCheck("enum", body_enum_all, kind="enum", chunks=enum_chunks, cases=enum_cases_window,
             doc="exhaustive: every b, every n <= 2*64/b+2, every w, two content patterns (all ones, position coded); "
                 "round trip and every position when w == 1"),
]
