"""C16  Arithmetic on run-length arrays equals arithmetic on the dense arrays."""
import numpy as np
from hypothesis import strategies as st

from .. import gen, rl
from ..core import SubCheck, Violation
from ..oracle import lib, jsonable, arrays_equal, same_scalar, expect_refused
from .c04 import BINARY, UNARY, PYOP, INEXACT, close_enough, scalar_obj, PY_SCALARS
from .c05 import close

RULE = ("Cases = pairs of equal-length arrays whose run boundaries are drawn independently and forced through the alignment "
        "classes {coincident, nested, interleaved, one run vs many}, dtype pairs over bool/int8..int64/uint8/float32/float64, "
        "the arithmetic / comparison / bitwise / logical ufuncs of C04, scalars (Python, numpy incl. np.bool_, 0-d) on either "
        "side, unary ufuncs, reductions sum/any/all/mean (np.<f> and method) and max(), np.histogram (int bins and explicit "
        "edges, finite values), np.concatenate of 1-4 arrays.  Oracle = the same numpy call on the decoded operands: values, "
        "dtype, numpy's own refusals; operands unmodified; results canonical (C14 predicate).  Non-trivial = both operands "
        "have >= 2 runs with at least one coincident and one non-coincident boundary (binary), otherwise >= 2 runs."
        "  Element types incl. uint16/32/64; operands whose values coincide or differ by one across element types; mean over full-range 64-bit integers (exact rational reference, tolerance 1e-12 * sum|a| / n).")
ASSUMPTIONS = ["the oracle uses the decoded operands (encoding merges -0.0 with 0.0)",
               "reductions are compared by value (sum/mean magnitudes bounded so that float64 is exact; mean within 2 ulp); "
               "their scalar type is not asserted",
               "float power/hypot within 4 ulp"]


def build(dt, n, cuts, vals):
    """dense array of length n with run boundaries at cuts (sorted, in 1..n-1) and one value per run"""
    cuts = sorted(set(c for c in cuts if 0 < c < n))
    bounds = [0] + cuts + [n]
    out = []
    for k in range(len(bounds) - 1):
        out.extend([vals[k % len(vals)]] * (bounds[k + 1] - bounds[k]))
    return np.array(out, dtype=dt)


def alignment(a, b):
    sa, sb = set(rl.run_structure(a)[1:]), set(rl.run_structure(b)[1:])
    labs = []
    if not sa or not sb:
        labs.append("one-run-operand")
    if sa and sa == sb:
        labs.append("coincident")
    elif sa and sb and (sa < sb or sb < sa):
        labs.append("nested")
    elif sa and sb:
        labs.append("interleaved" if sa & sb else "disjoint-boundaries")
    nt = len(sa) >= 1 and len(sb) >= 1 and bool(sa & sb) and bool(sa ^ sb)
    return labs, nt


def apply(name, spell, x, y=None):
    uf = getattr(np, name)
    if y is None:
        return PYOP[UNARY[name]](x) if spell == "operator" else uf(x)
    return PYOP[BINARY[name]](x, y) if spell == "operator" else uf(x, y)


def check_result(got, exp, name, what, strict, **info):
    from npstructures import RunLengthArray
    if not exp.ok:
        expect_refused(got, what, numpy_raises=repr(exp.exc)[:200], **info)
        return
    e = np.asarray(exp.value)
    if not got.ok:
        raise Violation(what + ":unexpected-refusal", got=got.brief(), expected=jsonable(e), **info)
    x = got.value
    if not isinstance(x, RunLengthArray):
        raise Violation(what + ":result-kind", got=got.brief(), **info)
    d = lib(lambda: (rl.decode(x), len(x)))
    if not d.ok:
        raise Violation(what + ":undecodable", got=d.brief(), **info)
    arr, n = d.value
    if n != len(e) or not close_enough(arr, e, name):
        raise Violation(what + ":values", expected=jsonable(e), got=jsonable(arr), **info)
    if e.size and arr.dtype != e.dtype:
        raise Violation(what + ":dtype", expected=str(e.dtype), got=str(arr.dtype), **info)
    rl.check_canonical(x, len(e), strict and name not in INEXACT, what, **info)


def unchanged(x, before, what, strict=True):
    r = lib(lambda: rl.decode(x))
    if not r.ok or r.value.dtype != before.dtype or not arrays_equal(r.value, before):
        raise Violation(what + ":operand-modified", expected=jsonable(before), got=r.brief())
    rl.check_canonical(x, len(before), strict, what + "-operand")


def body_binary(case, ctx):
    n = case["n"]
    a = build(case["dta"], n, case["ca"], case["va"])
    b = build(case["dtb"], n, case["cb"], case["vb"])
    x, y = rl.encode(a), rl.encode(b)
    da, db = rl.decode(x), rl.decode(y)
    labs, nt = alignment(da, db)
    ctx.label("op:" + case["op"], "spell:" + case["spell"], "dta:" + case["dta"], "dtb:" + case["dtb"], *labs)
    ctx.nt(nt)
    with np.errstate(all="ignore"):
        exp = lib(apply, case["op"], "ufunc", da, db)
        got = lib(apply, case["op"], case["spell"], x, y)
    try:
        check_result(got, exp, case["op"], "rl-rl", True, op=case["op"])
    except Violation as v:
        # numpy itself is not single-valued on a few inputs: its scalar loop and its array loop disagree (float32 / float64
        # power(-inf, 0.5): inf from the array loop, nan from the scalar loop).  Where they do, either answer is numpy's.
        if not v.kind.endswith(":values") or not (exp.ok and got.ok):
            raise
        uf = getattr(np, case["op"])
        with np.errstate(all="ignore"):
            alt = lib(lambda: np.array([uf(p, q) for p, q in zip(da, db)]))
            dec = lib(lambda: rl.decode(got.value))
        e = np.asarray(exp.value)
        if not (alt.ok and dec.ok and alt.value.shape == e.shape == dec.value.shape and not arrays_equal(alt.value.astype(e.dtype), e)):
            raise
        g, a2 = dec.value, alt.value.astype(e.dtype)
        if not all(arrays_equal(g[i:i + 1], e[i:i + 1]) or arrays_equal(g[i:i + 1], a2[i:i + 1]) for i in range(len(e))):
            raise
        ctx.label("numpy-scalar-and-array-loops-disagree:either-accepted")
    unchanged(x, da, "rl-rl-a")
    unchanged(y, db, "rl-rl-b")


def body_scalar(case, ctx):
    a = build(case["dta"], case["n"], case["ca"], case["va"])
    x = rl.encode(a)
    da = rl.decode(x)
    s = scalar_obj(case["s"])
    left = case["side"] == "left"
    ctx.label("op:" + case["op"], "spell:" + case["spell"], "side:" + case["side"], "dta:" + case["dta"],
              "scalar:" + case["s"][0] + (":" + type(case["s"][1]).__name__ if case["s"][0] == "py" else ":" + case["s"][1]))
    ctx.nt(rl.n_runs(da) >= 2)
    with np.errstate(all="ignore"):
        exp = lib(apply, case["op"], "ufunc", *((s, da) if left else (da, s)))
        got = lib(apply, case["op"], case["spell"], *((s, x) if left else (x, s)))
    check_result(got, exp, case["op"], "rl-scalar", False, op=case["op"], side=case["side"])
    unchanged(x, da, "rl-scalar-a")


def body_unary(case, ctx):
    a = build(case["dta"], case["n"], case["ca"], case["va"])
    x = rl.encode(a)
    da = rl.decode(x)
    ctx.label("op:" + case["op"], "spell:" + case["spell"], "dta:" + case["dta"])
    ctx.nt(rl.n_runs(da) >= 2)
    with np.errstate(all="ignore"):
        exp = lib(apply, case["op"], "ufunc", da)
        got = lib(apply, case["op"], case["spell"], x)
    check_result(got, exp, case["op"], "rl-unary", False, op=case["op"])
    unchanged(x, da, "rl-unary-a")


def body_reduce(case, ctx):
    a = build(case["dta"], case["n"], case["ca"], case["va"])
    x = rl.encode(a)
    da = rl.decode(x)
    f, spell = case["f"], case["spell"]
    # reductions are also taken of *derived* arrays, whose neighbouring runs may carry equal values
    d = case.get("derive")
    with np.errstate(all="ignore"):
        if d == "gt":
            x, da = x > case["va"][0], da > np.asarray(case["va"][0], dtype=da.dtype)
        elif d == "mul0":
            x, da = x * 0, da * 0
        elif d == "self-concat":
            x, da = np.concatenate([x, x]), np.concatenate([da, da])
        elif d == "abs":
            x, da = abs(x), abs(da)
        elif d == "slice":
            x, da = x[::2], da[::2]
    if d and d != "none":
        got_d = lib(lambda: rl.decode(x))
        if not got_d.ok or not arrays_equal(got_d.value, da):
            ctx.label("derive-differs-not-this-subcheck")
            return
        da = got_d.value
    ctx.label("f:" + f, "spell:" + spell, "dta:" + case["dta"], "derive:" + str(d))
    ctx.nt(rl.n_runs(da) >= 2 or bool(d and d != "none"))
    with np.errstate(all="ignore"):
        exp = getattr(np, f)(da)
        got = lib(lambda: getattr(np, f)(x) if spell == "np" else getattr(x, f)())
    if not got.ok:
        raise Violation("reduce:unexpected-refusal", f=f, got=got.brief(), expected=jsonable(exp))
    g = got.value
    if isinstance(g, np.ndarray) and g.ndim:
        raise Violation("reduce:result-kind", f=f, got=got.brief())
    ge, ee = np.asarray(g).item(), np.asarray(exp).item()
    if f == "mean" and case.get("wide"):
        # full-range integers: the reference is the exact rational mean; tolerance = a float64 summation bound, 1e-12 * sum|a| / n
        ints = [int(v) for v in da]
        S = sum(abs(v) for v in ints)
        ctx.label("mean:full-range-ints")
        ok = abs(float(ge) - sum(ints) / len(ints)) <= 1e-12 * S / len(ints) + 1e-300
    elif f == "mean":
        fdt = da.dtype if da.dtype.kind == "f" else np.dtype("float64")
        with np.errstate(all="ignore"):
            ok = close(np.asarray(ge, dtype=np.float64).astype(fdt), np.asarray(ee, dtype=np.float64).astype(fdt), 2)
    else:
        ok = same_scalar(float(ge) if isinstance(ge, (int, float, bool)) else ge, float(ee) if isinstance(ee, (int, float, bool)) else ee) \
            and (not isinstance(ee, (int, bool)) or int(ge) == int(ee))
    if not ok:
        raise Violation("reduce:value", f=f, expected=jsonable(ee), got=jsonable(ge), derive=d)
    unchanged(x, da, "reduce-a", strict=not (d and d != "none"))   # derived operands may have equal neighbouring runs


def body_hist(case, ctx):
    a = build(case["dta"], case["n"], case["ca"], case["va"])
    x = rl.encode(a)
    da = rl.decode(x)
    bins = case["bins"]
    ctx.label("bins:" + ("int" if isinstance(bins, int) else "edges"), "dta:" + case["dta"])
    ctx.nt(rl.n_runs(da) >= 2)
    kw = {"bins": bins}
    if case["range"] is not None:
        kw["range"] = tuple(case["range"])
    if case.get("density") is not None:
        kw["density"] = case["density"]
        ctx.label("density:%s" % case["density"])
    exp = lib(lambda: np.histogram(da, **kw))
    got = lib(lambda: np.histogram(x, **kw))
    if not exp.ok:
        ctx.label("numpy-refuses-not-asserted")
        return
    if not got.ok or not isinstance(got.value, tuple) or len(got.value) != 2:
        raise Violation("histogram:result", got=got.brief())
    if case.get("density"):
        with np.errstate(all="ignore"):
            same_h = np.asarray(got.value[0]).shape == exp.value[0].shape and bool(
                np.all(np.isclose(np.asarray(got.value[0], dtype=float), exp.value[0], rtol=1e-12, atol=0, equal_nan=True)))
    else:
        same_h = arrays_equal(np.asarray(got.value[0]), exp.value[0])
    if not same_h or not arrays_equal(np.asarray(got.value[1]), exp.value[1]):
        raise Violation("histogram:values", expected=jsonable(list(exp.value)), got=jsonable(list(got.value)))
    unchanged(x, da, "histogram-a")


def body_concat(case, ctx):
    parts = [build(p.get("dt", case["dt"]), p["n"], p["c"], p["v"]) for p in case["parts"]]
    xs = [rl.encode(p) for p in parts]
    ds = [rl.decode(x) for x in xs]
    ctx.label("k:%d" % len(parts), "dt:" + case["dt"], "mixed-dtypes" if len({str(p.dtype) for p in parts}) > 1 else "one-dtype")
    ctx.nt(len(parts) >= 2 and any(rl.n_runs(d) >= 2 for d in ds))
    got = lib(lambda: np.concatenate(xs))
    rl.expect_rl(got, np.concatenate(ds), "concatenate", strict=False)
    for x, d in zip(xs, ds):
        unchanged(x, d, "concatenate-part")


def body_sequence(case, ctx):
    """several operations on ONE encoded array (and a second one sharing nothing with it): every result equals numpy on the
    decoded operand and the operands stay unchanged - state leaking between calls or objects shows up here"""
    a = build(case["dta"], case["n"], case["ca"], case["va"])
    b = build(case["dtb"], case["n"], case["cb"], case["vb"])
    x, y = rl.encode(a), rl.encode(b)
    da, db = rl.decode(x), rl.decode(y)
    ctx.label("dta:" + case["dta"], "dtb:" + case["dtb"], "ops:%d" % len(case["ops"]))
    ctx.nt(rl.n_runs(da) >= 2 and len(case["ops"]) >= 2)
    n = len(da)
    with np.errstate(all="ignore"):
        for k, op in enumerate(case["ops"]):
            ctx.label("seq:" + op[0])
            info = dict(step=k, op=op, before=case["ops"][:k])
            if op[0] == "binary":
                e = lib(apply, op[1], "ufunc", da, db)
                g = lib(apply, op[1], "ufunc", x, y)
                check_result(g, e, op[1], "seq-rl-rl", True, **info)
            elif op[0] == "scalar":
                e = lib(apply, op[1], "ufunc", da, op[2])
                g = lib(apply, op[1], "ufunc", x, op[2])
                check_result(g, e, op[1], "seq-rl-scalar", False, **info)
            elif op[0] == "reduce":
                e = getattr(np, op[1])(da)
                g = lib(lambda: getattr(x, op[1])())
                if not g.ok or not same_scalar(float(np.asarray(g.value).item()), float(np.asarray(e).item())):
                    raise Violation("seq-reduce", expected=jsonable(e), got=g.brief(), **info)
            elif op[0] == "slice":
                s_ = slice(op[1], op[2], op[3])
                rl.expect_rl(lib(lambda: x[s_]), da[s_], "seq-slice", strict=op[3] is not None and abs(op[3]) != 1, **info)
            elif op[0] == "index":
                i = op[1] % (2 * n) - n
                g = lib(lambda: x[i])
                if not g.ok or not same_scalar(np.asarray(g.value).item(), da[i].item()):
                    raise Violation("seq-index", i=i, expected=jsonable(da[i]), got=g.brief(), **info)
            elif op[0] == "concat":
                rl.expect_rl(lib(lambda: np.concatenate([x, y, x])), np.concatenate([da, db, da]), "seq-concatenate", strict=False, **info)
            elif op[0] == "decode":
                g = lib(lambda: np.asarray(x))
                if not g.ok or not arrays_equal(g.value, da):
                    raise Violation("seq-asarray", got=g.brief(), **info)
            unchanged(x, da, "seq-a-after-%s" % op[0])
            unchanged(y, db, "seq-b-after-%s" % op[0])


@st.composite
def sequence_case(draw, tier):
    n = draw(st.integers(1, 16))
    dta, dtb = draw(st.sampled_from(["int8", "int64", "uint8", "bool", "float64"])), draw(st.sampled_from(["int8", "int64", "uint8", "bool", "float64"]))
    ca, va = draw(operand(tier, dta, n, specials=False))
    cb, vb = draw(operand(tier, dtb, n, specials=False))
    op = st.one_of(st.tuples(st.just("binary"), st.sampled_from(["add", "maximum", "less", "multiply", "subtract"])).map(list),
                   st.tuples(st.just("scalar"), st.sampled_from(["add", "multiply", "greater", "floor_divide"]), st.sampled_from([0, 1, 2, 3])).map(list),
                   st.tuples(st.just("reduce"), st.sampled_from(["sum", "any", "all", "max"])).map(list),
                   st.tuples(st.just("slice"), gen.bound(8), gen.bound(8), st.sampled_from([None, 1, -1, 2, -2, 3])).map(list),
                   st.tuples(st.just("index"), st.integers(0, 1000)).map(list), st.just(["concat"]), st.just(["decode"]))
    return {"n": n, "dta": dta, "ca": ca, "va": va, "dtb": dtb, "cb": cb, "vb": vb, "ops": draw(st.lists(op, min_size=2, max_size=6))}


DTS = gen.C04_DT


@st.composite
def operand(draw, tier, dt, n, specials=True, mag=None):
    cuts = draw(st.lists(st.integers(1, max(n - 1, 1)), max_size=6 if tier == "quick" else 10))
    vals = draw(st.lists(gen.elem(dt, specials=specials, mag=mag), min_size=1, max_size=4))
    return cuts, vals


CMP_LIKE = ["less", "less_equal", "greater", "greater_equal", "equal", "not_equal", "maximum", "minimum", "subtract"]
WIDE_INT = ["int64", "uint64", "int32", "uint32", "int64", "uint64", "float64", "int8", "uint8"]


@st.composite
def binary_case(draw, tier, near=False):
    n = draw(st.one_of(st.integers(1, 8), st.integers(1, 30 if tier == "quick" else 80)))
    pool = WIDE_INT if near else DTS
    dta, dtb = draw(st.sampled_from(pool)), draw(st.sampled_from(pool))
    ca, va = draw(operand(tier, dta, n))
    mode = draw(st.integers(0, 4))
    cb, vb = draw(operand(tier, dtb, n))
    if mode == 0:
        cb = list(ca)                         # coincident
    elif mode == 1 and ca:
        k = draw(st.integers(0, len(ca)))     # nested: a subset of a's boundaries
        cb = list(ca[:k])
    elif mode == 2:
        cb = list(ca) + cb                    # superset / interleaved with shared boundaries
    elif mode == 3:
        cb = []                               # one run vs many
    if (near or draw(st.integers(0, 3)) == 0) and dta != "bool" and dtb != "bool":
        # b's values nearly coincide with a's (the same number, or one off, as far as b's type can hold it): the boundary
        # cases of comparisons, minimum / maximum and differences, also across element types
        deltas = draw(st.lists(st.sampled_from([0, 0, 1, -1]), min_size=len(va), max_size=len(va)))
        near = []
        for v, d in zip(va, deltas):
            if isinstance(v, float) and (v != v or v in (float("inf"), float("-inf"))):
                near.append(v if dtb.startswith("float") else 0)
                continue
            w = (v + d) if dtb.startswith("float") else int(v) + d
            if not dtb.startswith("float"):
                lo, hi = gen.int_range(dtb)
                w = min(max(w, lo), hi)
            near.append(w)
        vb = near
    op = draw(st.sampled_from(CMP_LIKE if near else sorted(BINARY)))
    return {"n": n, "dta": dta, "ca": ca, "va": va, "dtb": dtb, "cb": cb, "vb": vb, "op": op,
            "spell": draw(st.sampled_from(["ufunc", "operator"])) if BINARY[op] else "ufunc"}


_SC = None


@st.composite
def scalar_case(draw, tier):
    global _SC
    if _SC is None:
        py = st.sampled_from(PY_SCALARS).map(lambda v: ["py", v])
        nps = st.sampled_from(DTS).flatmap(lambda dt: st.tuples(st.sampled_from(["np", "np", "0d"]), st.just(dt), gen.elem(dt)).map(list))
        _SC = st.one_of(py, nps)
    n = draw(st.integers(1, 20))
    dta = draw(st.sampled_from(DTS))
    ca, va = draw(operand(tier, dta, n))
    op = draw(st.sampled_from(sorted(BINARY)))
    return {"n": n, "dta": dta, "ca": ca, "va": va, "op": op, "s": draw(_SC), "side": draw(st.sampled_from(["left", "right"])),
            "spell": draw(st.sampled_from(["ufunc", "operator"])) if BINARY[op] else "ufunc"}


@st.composite
def unary_case(draw, tier):
    n = draw(st.integers(1, 20))
    dta = draw(st.sampled_from(DTS))
    ca, va = draw(operand(tier, dta, n))
    op = draw(st.sampled_from(sorted(UNARY)))
    return {"n": n, "dta": dta, "ca": ca, "va": va, "op": op, "spell": draw(st.sampled_from(["ufunc", "operator"])) if UNARY[op] else "ufunc"}


@st.composite
def reduce_case(draw, tier):
    n = draw(st.integers(1, 40))
    dta = draw(st.sampled_from(DTS + ["uint64", "uint16"]))
    f = draw(st.sampled_from(["sum", "any", "all", "mean", "max"]))
    # magnitudes keep every partial sum exactly representable in the operand's own dtype (numpy sums float32 in float32)
    mag = (256 if dta.startswith("float") else 2**40) if f in ("sum", "mean") else None
    wide = f == "mean" and dta in ("int64", "uint64", "int32") and draw(st.integers(0, 2)) == 0
    if wide:
        mag = None       # the mean of integers of any magnitude (sum(len * value) does not fit 64 bits)
    ca, va = draw(operand(tier, dta, n, mag=mag))
    derive = draw(st.sampled_from(["none", "none", "gt", "mul0", "self-concat", "abs", "slice"]))
    if wide:
        derive = draw(st.sampled_from(["none", "self-concat", "slice"]))
    if dta == "bool" and derive in ("abs",):
        derive = "none"
    if dta.startswith("uint") and derive == "abs":
        derive = "none"
    return {"n": n, "dta": dta, "ca": ca, "va": va, "f": f, "spell": "method" if f == "max" else draw(st.sampled_from(["np", "method"])),
            "derive": derive, "wide": wide}


@st.composite
def hist_case(draw, tier):
    n = draw(st.integers(1, 30))
    dta = draw(st.sampled_from(["int8", "int64", "uint8", "float32", "float64", "int32"]))
    ca, va = draw(operand(tier, dta, n, specials=False, mag=100))
    bins = draw(st.one_of(st.integers(1, 12), st.sampled_from([[-5, 0, 1, 2, 200], [0, 1], [-100.5, -1, 0.5, 3, 100.5], [0, 0.25, 0.5, 1, 50]])))
    rng = draw(st.sampled_from([None, None, [-10, 10], [0, 100]])) if isinstance(bins, int) else None
    return {"n": n, "dta": dta, "ca": ca, "va": va, "bins": bins, "range": rng, "density": draw(st.sampled_from([None, None, True, False]))}


@st.composite
def concat_case(draw, tier):
    dt = draw(st.sampled_from(rl.RL_DT))
    k = draw(st.sampled_from([1, 2, 3, 3, 4, 5]))
    mixed = draw(st.booleans())       # every operand its own element type: numpy promotes over all operands at once
    parts = []
    for _ in range(k):
        n = draw(st.integers(1, 12))
        pdt = draw(st.sampled_from(rl.RL_DT)) if mixed else dt
        c, v = draw(operand(tier, pdt, n, specials=not mixed, mag=100 if mixed else None))
        parts.append({"n": n, "c": c, "v": v, "dt": pdt})
    return {"dt": dt, "parts": parts}


SUBCHECKS = [
    SubCheck("rl-rl", body_binary, binary_case, quick=12000, thorough=900000, shards_quick=7,
             doc="binary ufunc / operator of two encoded arrays with unrelated run boundaries, all dtype pairs"),
    SubCheck("rl-rl-near-values", body_binary, lambda tier: binary_case(tier, near=True), quick=5000, thorough=400000, shards_quick=3,
             doc="comparisons, minimum / maximum and differences of two encoded arrays whose values coincide or differ by one, across "
                 "element types incl. 64-bit values no float64 can tell apart"),
    SubCheck("rl-scalar", body_scalar, scalar_case, quick=7000, thorough=500000, shards_quick=4,
             doc="encoded array with a Python / numpy / 0-d scalar on either side (NEP 50 dtype, numpy refusals)"),
    SubCheck("op-sequence", body_sequence, sequence_case, quick=4000, thorough=250000, shards_quick=3,
             doc="2-6 operations (rl-rl / scalar ufunc, reduction, slice, index, concatenate, decode) on the SAME two encoded arrays, "
                 "each compared with numpy on the decoded operands; operands unchanged after every step"),
    SubCheck("unary", body_unary, unary_case, quick=3000, thorough=200000, shards_quick=1, doc="unary ufuncs / operators"),
    SubCheck("reductions", body_reduce, reduce_case, quick=4000, thorough=300000, shards_quick=2,
             doc="sum / any / all / mean (np.<f> and method), max() equal numpy on the decoded array"),
    SubCheck("histogram", body_hist, hist_case, quick=2000, thorough=150000, shards_quick=1,
             doc="np.histogram with int bins (optional range) and explicit edges on finite values"),
    SubCheck("concatenate", body_concat, concat_case, quick=8000, thorough=400000, shards_quick=4,
             doc="np.concatenate of 1-5 encoded arrays (one element type, or every operand its own) decodes to the concatenation, dtype as numpy's"),
]
