"""C12  Counter totals equal the number of occurrences seen so far."""
import collections

import numpy as np
from hypothesis import strategies as st
from hypothesis.stateful import RuleBasedStateMachine, rule, initialize

from .. import gen
from ..core import SubCheck, Violation, Ctx
from ..oracle import lib, jsonable
from .c11 import key_setup, IDX

RULE = ("Histories = key set and modulus as in C11, initial value in {default, scalar 0, non-zero scalar, per-key array}, then "
        "1-8 count(samples) calls drawn by a Hypothesis rule-based state machine from {empty batch, no key at all, only keys, "
        "mixed, one key repeated up to 50 times, absent samples that share a bucket with a key, absent samples whose bucket is "
        "empty}; samples are arrays (or lists) cast to the key dtype by the API.  Oracle = collections.Counter restricted to "
        "the key set plus the initial values, read back with counter[keys] after every batch.  Metamorphic sub-check: the same "
        "multiset of samples under a different modulus, permuted, and split into batches differently gives identical totals.  "
        "Non-trivial = at least two batches, a batch containing absent samples, and a non-default initial state."
        "  Initial per-key totals also as explicitly typed arrays (uint64 / int64 far above 2**53, int32, uint16, float64); key arrays and read-back totals are overwritten by the caller afterwards.  Large-table sub-check: 13-400 keys with batches much smaller than the table (a key repeated inside a small batch) vs a dictionary count after every batch.")
ASSUMPTIONS = ["samples are representable in the key dtype (a wider-dtype sample that wraps onto a key is outside the stated domain)"]


def absent_candidates(keys, dt, mod_eff):
    lo, hi = gen.int_range(dt)
    lo, hi = max(lo, -2**63), min(hi, 2**64 - 1)
    ks = set(keys)
    used = {k % mod_eff for k in keys}
    same, empty = [], []
    for base in keys[:4]:
        for d in range(1, 60):
            for c in (base + d * mod_eff, base - d * mod_eff):
                if lo <= c <= hi and c not in ks and len(same) < 6:
                    same.append(c)
            for c in (base + d, base - d):
                if lo <= c <= hi and c not in ks and (c % mod_eff) not in used and len(empty) < 6:
                    empty.append(c)
    for c in (lo, hi, hi - 1, lo + 1):
        if c not in ks:
            (same if (c % mod_eff) in used else empty).append(c)
    return same, empty


TYPED = [("uint64", 2**63 + 2**53 + 1), ("uint64", 2**53 + 1), ("int64", 2**60 + 1), ("int64", -2**62 - 1), ("int32", 2**30), ("uint16", 1000),
         ("float64", 0), ("uint64", 0)]


def typed_init(init, n):
    """per-key initial totals as an explicitly typed array; 64-bit types start far above 2**53 (no total leaves the type's range:
    a history adds at most a few hundred occurrences)"""
    dt, off = TYPED[init[0] % len(TYPED)]
    return np.array([off + v for v in init[:n]], dtype=dt)


class Harness:
    def __init__(self):
        self.trace = []
        self.labels = []
        self.batches = 0
        self.saw_absent = False
        self.nondefault = False

    def apply(self, op):
        self.trace.append(op)
        getattr(self, "op_" + op[0])(*op[1:])

    def op_init(self, dt, keys, mod, ikind, init):
        from npstructures import Counter
        self.dt, self.keys = dt, list(keys)
        n = len(keys)
        karr = np.array(keys, dtype=dt)
        kw = {} if mod is None else {"mod": mod}
        self.mod_eff = mod if mod is not None else 2 * n - 1
        if ikind == "default":
            f = lambda: Counter(karr, **kw)
            self.m = {k: 0 for k in keys}
        elif ikind == "scalar0":
            f = lambda: Counter(karr, 0, **kw)
            self.m = {k: 0 for k in keys}
        elif ikind == "scalar":
            v = 1 + init[0]
            f = lambda: Counter(karr, v, **kw)
            self.m = {k: v for k in keys}
        elif ikind == "array-typed":
            arr = typed_init(init, n)
            f = lambda: Counter(karr, arr.copy(), **kw)
            self.m = dict(zip(keys, [int(x) for x in arr]))
            self.labels.append("init-dtype:" + str(arr.dtype))
        else:
            f = lambda: Counter(karr, np.array(init[:n]), **kw)
            self.m = dict(zip(keys, init[:n]))
        self.nondefault = ikind in ("scalar", "array", "array-typed")
        r = lib(f)
        if not r.ok:
            raise Violation("init:refused", got=r.brief(), keys=keys, mod=mod)
        self.c = r.value
        karr[...] = 0 if karr.any() else 1          # the key array stays the caller's
        self.same, self.empty = absent_candidates(self.keys, dt, self.mod_eff)
        self.labels += ["dt:" + dt, "init:" + ikind, "mod:" + ("default" if mod is None else "1" if mod == 1 else "explicit")]
        self.read()

    def samples(self, spec):
        """spec: list of ['k', i] | ['s', i] (absent, bucket shared with a key) | ['e', i] (absent, empty bucket)"""
        out = []
        for kind, i in spec:
            if kind == "k":
                out.append(self.keys[i % len(self.keys)])
            elif kind == "s" and self.same:
                out.append(self.same[i % len(self.same)])
                self.labels.append("absent-same-bucket")
            elif kind == "e" and self.empty:
                out.append(self.empty[i % len(self.empty)])
                self.labels.append("absent-empty-bucket")
        return out

    def op_count(self, spec, rep, as_):
        s = self.samples(spec)
        if rep and s:
            s = s + [s[0]] * rep
            self.labels.append("heavy-repetition")
        if not s:
            self.labels.append("empty-batch")
        elif not any(x in self.m for x in s):
            self.labels.append("no-key-batch")
        elif all(x in self.m for x in s):
            self.labels.append("only-keys-batch")
        else:
            self.labels.append("mixed-batch")
        if any(x not in self.m for x in s):
            self.saw_absent = True
        if as_ in ("sorted", "one-descent") and s:
            s = sorted(s)
            if as_ == "one-descent" and len(s) >= 2:
                k = 1 + rep % (len(s) - 1) if len(s) > 2 else 1
                s = s[k:] + s[:k]          # ascending except for one descent from the largest to the smallest sample
            self.labels.append("batch:" + as_)
        arg = list(s) if as_ == "list" and s and all(abs(x) < 2**63 for x in s) else np.array(s, dtype=self.dt)
        r = lib(self.c.count, arg)
        if not r.ok:
            raise Violation("count:refused", samples=s, got=r.brief())
        for x in s:
            if x in self.m:
                self.m[x] += 1
        self.batches += 1
        self.read()

    def read(self):
        ks = self.keys
        got = lib(lambda: self.c[np.array(ks, dtype=self.dt)])
        if not got.ok:
            raise Violation("read:refused", got=got.brief())
        g = np.asarray(got.value)
        if g.shape != (len(ks),) or [int(x) for x in g] != [self.m[k] for k in ks]:
            raise Violation("totals", keys=ks, expected=[self.m[k] for k in ks], got=jsonable(g))
        if isinstance(got.value, np.ndarray) and got.value.size and got.value.flags.writeable:
            got.value[...] = 0 if got.value.astype(bool).any() else 1      # the totals read back are the caller's copy

    def finish(self, ctx):
        ctx.label(*sorted(set(self.labels)), "batches:%d" % min(self.batches, 4))
        ctx.nt(self.batches >= 2 and self.saw_absent and self.nondefault)


def body_history(trace, ctx):
    h = Harness()
    try:
        for op in trace:
            h.apply(op)
    finally:
        h.finish(ctx)


SPEC = st.lists(st.tuples(st.sampled_from(["k", "k", "k", "s", "e"]), st.integers(0, 11)).map(list), max_size=10)
SPEC_ABSENT = st.lists(st.tuples(st.sampled_from(["s", "e"]), st.integers(0, 11)).map(list), min_size=1, max_size=5)
SPEC_KEYS = st.lists(st.tuples(st.just("k"), st.integers(0, 11)).map(list), min_size=1, max_size=8)


def machine(tier, sink):
    class CounterMachine(RuleBasedStateMachine):
        def __init__(self):
            super().__init__()
            self.h = Harness()
            self.violation = None

        def do(self, op):
            try:
                self.h.apply(op)
            except Violation as v:
                self.violation = v
                raise

        @initialize(setup=key_setup(), ikind=st.sampled_from(["default", "scalar0", "scalar", "array", "array-typed"]),
                    init=st.lists(st.integers(0, 9), min_size=12, max_size=12))
        def init(self, setup, ikind, init):
            dt, keys, mod = setup
            self.do(["init", dt, keys, mod, ikind, init])

        @rule(spec=st.one_of(SPEC, SPEC_ABSENT, SPEC_KEYS, st.just([])), rep=st.sampled_from([0, 0, 0, 3, 50]),
              as_=st.sampled_from(["array", "array", "list", "sorted", "one-descent"]))
        def count(self, spec, rep, as_):
            self.do(["count", spec, rep, as_])

        def teardown(self):
            ctx = Ctx()
            self.h.finish(ctx)
            if self.h.trace:
                sink(self.h.trace, ctx, self.violation)

    return CounterMachine


# ---------------------------------------------------------------- metamorphic: modulus / order / batching invariance

def totals(dt, keys, mod, ikind, init, batches):
    from npstructures import Counter
    karr = np.array(keys, dtype=dt)
    kw = {} if mod is None else {"mod": mod}
    if ikind == "default":
        c = Counter(karr, **kw)
    elif ikind == "scalar":
        c = Counter(karr, 1 + init[0], **kw)
    elif ikind == "array-typed":
        c = Counter(karr, typed_init(init, len(keys)), **kw)
    else:
        c = Counter(karr, np.array(init[:len(keys)]), **kw)
    for b in batches:
        c.count(np.array(b, dtype=dt))
    return [int(x) for x in np.asarray(c[karr])]


def body_meta(case, ctx):
    dt, keys, mod = case["dt"], case["keys"], case["mod"]
    n = len(keys)
    m_eff = mod if mod is not None else 2 * n - 1
    same, empty = absent_candidates(keys, dt, m_eff)
    pool = list(keys) + same[:3] + empty[:3]
    samples = [pool[i % len(pool)] for i in case["s"]]
    base = {"default": 0, "scalar": 1 + case["init"][0]}.get(case["ikind"])
    per_key = [int(x) for x in typed_init(case["init"], n)] if case["ikind"] == "array-typed" else case["init"]
    exp = [(base if base is not None else per_key[j]) + samples.count(k) for j, k in enumerate(keys)]
    ctx.label("dt:" + dt, "init:" + case["ikind"], "variant:" + case["variant"][0])
    ctx.nt(len(samples) >= 2 and any(s not in keys for s in samples))
    ref = lib(totals, dt, keys, mod, case["ikind"], case["init"], [samples])
    if not ref.ok or ref.value != exp:
        raise Violation("meta:single-batch-totals", expected=exp, got=ref.brief(), samples=samples)
    v = case["variant"]
    if v[0] == "modulus":
        lo, hi = gen.int_range(dt)
        mod2 = [m for m in (1, 2, 3, 5, n, 2 * n + 1, 7, 31) if m <= hi][v[1] % len([m for m in (1, 2, 3, 5, n, 2 * n + 1, 7, 31) if m <= hi])]
        alt = lib(totals, dt, keys, mod2, case["ikind"], case["init"], [samples])
    elif v[0] == "permute":
        perm = sorted(range(len(samples)), key=lambda i: (v[1] * (i + 1) * 2654435761) % 1000003)
        alt = lib(totals, dt, keys, mod, case["ikind"], case["init"], [[samples[i] for i in perm]])
    else:
        cuts = sorted({c % (len(samples) + 1) for c in v[1]})
        bounds = [0] + cuts + [len(samples)]
        alt = lib(totals, dt, keys, mod, case["ikind"], case["init"], [samples[a:b] for a, b in zip(bounds, bounds[1:])])
    if not alt.ok or alt.value != ref.value:
        raise Violation("meta:totals-depend-on-" + v[0], reference=ref.value, variant=alt.brief(), samples=samples, how=v)


@st.composite
def meta_case(draw, tier):
    dt, keys, mod = draw(key_setup())
    variant = draw(st.one_of(st.tuples(st.just("modulus"), st.integers(0, 20)).map(list),
                             st.tuples(st.just("permute"), st.integers(1, 1000)).map(list),
                             st.tuples(st.just("split"), st.lists(st.integers(0, 40), min_size=1, max_size=4)).map(list)))
    return {"dt": dt, "keys": keys, "mod": mod, "ikind": draw(st.sampled_from(["default", "scalar", "array", "array-typed"])),
            "init": draw(st.lists(st.integers(0, 9), min_size=12, max_size=12)),
            "s": draw(st.lists(st.integers(0, 40), max_size=25)), "variant": variant}


# ---------------------------------------------------------------- large tables, small batches (table-size dimension)

BIG_DT = {"int64": (-2**62, 2**62), "int32": (-2**31, 2**31 - 1), "uint32": (0, 2**32 - 1), "int16": (-2**15, 2**15 - 1), "uint64": (0, 2**63)}


def big_keys(case):
    lo, hi = BIG_DT[case["dt"]]
    keys, k = [], max(lo, min(hi, case["start"]))
    for g in case["gaps"]:
        if k > hi:
            break
        keys.append(k)
        k += g
    return keys


def big_totals(dt, keys, mod, ikind, init, batches):
    from npstructures import Counter
    karr = np.array(keys, dtype=dt)
    kw = {} if mod is None else {"mod": mod}
    if ikind == "default":
        c = Counter(karr, **kw)
    elif ikind == "scalar":
        c = Counter(karr, init, **kw)
    else:
        c = Counter(karr, np.arange(len(keys)) % 7 + init, **kw)
    out = []
    for b in batches:
        c.count(np.array(b, dtype=dt))
        out.append([int(x) for x in np.asarray(c[karr])])
    return out


def body_big(case, ctx):
    dt, keys = case["dt"], big_keys(case)
    n = len(keys)
    lo, hi = BIG_DT[dt]
    ks = set(keys)
    batches = []
    for b in case["batches"]:
        cur = []
        for kind, i in b:
            if kind == "k":
                cur.append(keys[i % n])
            else:
                c = keys[i % n] + 1
                if c not in ks and c <= hi:
                    cur.append(c)
        batches.append(cur)
    mod = None if case["mod"] is None else max(1, case["mod"] % (3 * n))
    ikind, init = case["ikind"], case["init"]
    tot = [0] * n if ikind == "default" else [init] * n if ikind == "scalar" else [j % 7 + init for j in range(n)]
    pos = {k: j for j, k in enumerate(keys)}
    exp = []
    for cur in batches:
        for s_ in cur:
            if s_ in pos:
                tot[pos[s_]] += 1
        exp.append(list(tot))
    rep = any(len([x for x in cur if x in ks]) > len({x for x in cur if x in ks}) for cur in batches)
    small = any(0 < len(cur) * 16 < n for cur in batches)
    ctx.label("dt:" + dt, "init:" + ikind, "keys:" + ("<32" if n < 32 else "<128" if n < 128 else ">=128"),
              "repeat-in-batch" if rep else "no-repeat", "batch-much-smaller-than-table" if small else "batch-comparable")
    ctx.nt(len(batches) >= 2 and rep and small)
    got = lib(big_totals, dt, keys, mod, ikind, init, batches)
    if not got.ok:
        raise Violation("large-table:refused", got=got.brief(), n_keys=n, batches=batches)
    for step, (e, g) in enumerate(zip(exp, got.value)):
        if e != g:
            bad = [j for j in range(n) if e[j] != g[j]][:5]
            raise Violation("large-table:totals", step=step, batch=batches[step], n_keys=n,
                            wrong=[{"key": keys[j], "expected": e[j], "got": g[j]} for j in bad])


@st.composite
def big_case(draw, tier):
    dt = draw(st.sampled_from(sorted(BIG_DT)))
    n = draw(st.sampled_from([17, 33, 64, 100, 257])) if draw(st.integers(0, 3)) else draw(st.integers(13, 400))
    gaps = draw(st.lists(st.integers(1, 5), min_size=n, max_size=n)) if draw(st.booleans()) else [draw(st.integers(1, 1000))] * n
    lo, hi = BIG_DT[dt]
    start = draw(st.one_of(st.just(lo), st.just(0), st.integers(lo, hi)))
    samp = st.tuples(st.sampled_from(["k", "k", "k", "a"]), st.integers(0, 400)).map(list)
    batch = st.one_of(st.lists(samp, max_size=4), st.lists(samp, max_size=4).map(lambda b: b + b[:1] * 2), st.lists(samp, max_size=60))
    return {"dt": dt, "start": start, "gaps": gaps, "mod": draw(st.one_of(st.none(), st.integers(1, 2000))),
            "ikind": draw(st.sampled_from(["default", "scalar", "array"])), "init": draw(st.integers(0, 9)),
            "batches": draw(st.lists(batch, min_size=1, max_size=5))}


SUBCHECKS = [
    SubCheck("history", body_history, kind="machine", machine=machine, steps=8, quick=5000, thorough=500000, shards_quick=12,
             doc="rule-based state machine: count(batch) sequences vs collections.Counter-style model, read back after every batch"),
    SubCheck("metamorphic", body_meta, meta_case, quick=5000, thorough=600000, shards_quick=4,
             doc="same sample multiset under another modulus / permuted / split into batches differently -> identical totals"),
    SubCheck("large-table", body_big, big_case, quick=3000, thorough=300000, shards_quick=4,
             doc="key sets of 13-400 keys, 1-5 batches from a few samples (with a key repeated inside a batch) up to 60 samples, read back after every batch vs a dictionary count"),
]
