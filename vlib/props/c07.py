"""C07  Row-wise scans and reorderings equal numpy applied to each row."""
import numpy as np
from hypothesis import strategies as st

from .. import gen
from ..core import SubCheck, Violation
from ..oracle import LAZY_CHOICES, lib, lib_twice, np_rows, np_flat, lazy_ra, expect_ragged, expect_refused, expect_unchanged, expect_array, jsonable

RULE = ("Cases = (row-length vector with empty rows anywhere, dtype, content incl. negatives / duplicates / dtype extremes "
        "/ NaN / inf where the operation is exact, operation in {cumsum, add/subtract/bitwise_xor.accumulate, sort, unique "
        "(+counts), diff of order 0..5}, spelling, operand fresh or pending view).  Oracle = the numpy function applied to "
        "each row: result row lengths, values, dtype, row count and order; operand unmodified.  Non-trivial = the array has "
        "an empty row (esp. trailing), a row of length 1, or duplicate values in a row."
        "  Every scan / reordering is asked twice, the result returned first being overwritten by the caller in between.")
ASSUMPTIONS = ["float add/subtract accumulate is asserted on the exactly representable (dyadic, finite) sub-domain; the "
               "inexact / non-finite region is known finding K2 and exercised by a directed probe",
               "bool subtract.accumulate and float bitwise_xor.accumulate are refused by numpy itself: not asserted",
               "sort(axis=None) is not asserted"]


def nontrivial(a):
    lens = a["lens"]
    if 0 in lens or 1 in lens:
        return True
    c = 0
    for l in lens:
        r = a["vals"][c:c + l]
        c += l
        if len({repr(x) for x in r}) < len(r):
            return True
    return False


def common(case, ctx, *labels):
    a = case["a"]
    ctx.label(*gen.shape_labels(a["lens"]), "dt:" + a["dt"], "lazy" if case["lz"] else "fresh", *labels)
    ctx.nt(nontrivial(a))
    rows = np_rows(a)
    return a, rows, lazy_ra(rows, a["dt"], case["lz"])


def body_cumsum(case, ctx):
    a, rows, ra = common(case, ctx, "spell:" + case["spell"])
    ax = case["axis"]
    with np.errstate(all="ignore"):
        got = lib_twice(lambda: np.cumsum(ra, axis=ax) if case["spell"] == "np" else ra.cumsum(axis=ax))
        if ax is None:
            expect_array(got, np.cumsum(np_flat(a)), "cumsum-flat")
        elif a["dt"] in gen.INT_DT:
            expect_ragged(got, [np.cumsum(r) for r in rows], "cumsum", exp_dtype=np.cumsum(np_flat(a)[:1]).dtype if len(a["lens"]) else None)
        elif sum(a["lens"]):
            ctx.label("non-integer-rejected")
            expect_refused(got, "cumsum-non-integer", dtype=a["dt"])
    expect_unchanged(ra, rows, a["dt"], "cumsum-operand")


@st.composite
def cumsum_case(draw, tier):
    dts = gen.INT_DT * 2 + ["bool", "float32", "float64"]
    return {"a": draw(gen.ragged(tier, dts=dts, specials=False)), "spell": draw(st.sampled_from(["np", "method"])),
            "axis": draw(st.sampled_from([-1, 1, -1, 1, None])), "lz": draw(st.sampled_from(LAZY_CHOICES))}


def body_accumulate(case, ctx):
    a, rows, ra = common(case, ctx, "uf:" + case["uf"])
    uf = getattr(np, case["uf"])
    with np.errstate(all="ignore"):
        exp = lib(lambda: [uf.accumulate(r) for r in rows] + [uf.accumulate(np_flat(a)[:1])])
        if not exp.ok:
            ctx.label("numpy-refuses-not-asserted")
            return
        got = lib_twice(lambda: uf.accumulate(ra, axis=case["axis"]))
    expect_ragged(got, exp.value[:-1], "accumulate", exp_dtype=exp.value[-1].dtype if len(a["lens"]) else None, uf=case["uf"])
    expect_unchanged(ra, rows, a["dt"], "accumulate-operand")


@st.composite
def accumulate_case(draw, tier, inexact=False):
    uf = draw(st.sampled_from(["add", "subtract", "bitwise_xor"]))
    if inexact:
        uf = draw(st.sampled_from(["add", "subtract"]))
        dt = draw(st.sampled_from(["float32", "float64"]))
        lens = draw(gen.lengths(tier, min_rows=1, min_len=1, max_rows=4, max_len=3))
        big = st.sampled_from([float("inf"), float("-inf"), 1e10, -1e10, 3e38, 1e300, 0.1, 1.5, 1 / 3])
        vals = draw(st.lists(big, min_size=sum(lens), max_size=sum(lens)))
        a = {"lens": lens, "dt": dt, "vals": vals}
    else:
        a = draw(gen.ragged(tier, specials=False))
    return {"a": a, "uf": uf, "axis": draw(st.sampled_from([-1, 1])), "lz": draw(st.sampled_from(LAZY_CHOICES))}


def body_accumulate_inexact(case, ctx):
    """directed probe of known finding K2: float add/subtract accumulate = global scan minus per-row offset"""
    body_accumulate(case, ctx)


def body_sort(case, ctx):
    a, rows, ra = common(case, ctx)
    got = lib_twice(lambda: ra.sort(axis=case["axis"]) if case["axis"] is not None else ra.sort())
    expect_ragged(got, [np.sort(r) for r in rows], "sort", exp_dtype=a["dt"])
    expect_unchanged(ra, rows, a["dt"], "sort-operand")


@st.composite
def plain_case(draw, tier):
    return {"a": draw(gen.ragged(tier, wide=True)), "axis": draw(st.sampled_from([-1, 1, None])), "lz": draw(st.sampled_from(LAZY_CHOICES))}


def body_unique(case, ctx):
    a, rows, ra = common(case, ctx, "counts" if case["counts"] else "values-only", "axis:" + str(case["axis"]))
    ax, counts = case["axis"], case["counts"]
    got = lib_twice(lambda: np.unique(ra, axis=ax, return_counts=counts) if counts else np.unique(ra, axis=ax))
    if ax is None:
        exp = np.unique(np_flat(a), return_counts=True)
        if counts:
            if not got.ok or not isinstance(got.value, tuple) or len(got.value) != 2:
                raise Violation("unique-flat:result", got=got.brief())
            expect_array(lib(lambda: got.value[0]), exp[0], "unique-flat-values")
            expect_array(lib(lambda: got.value[1]), exp[1], "unique-flat-counts")
        else:
            expect_array(got, exp[0], "unique-flat-values")
    else:
        exp = [np.unique(r, return_counts=True) for r in rows]
        if counts:
            if not got.ok or not isinstance(got.value, tuple) or len(got.value) != 2:
                raise Violation("unique:result", got=got.brief())
            expect_ragged(lib(lambda: got.value[0]), [e[0] for e in exp], "unique-values", exp_dtype=a["dt"])
            expect_ragged(lib(lambda: got.value[1]), [e[1] for e in exp], "unique-counts", exp_dtype=np.int64)
        else:
            expect_ragged(got, [e[0] for e in exp], "unique-values", exp_dtype=a["dt"])
    expect_unchanged(ra, rows, a["dt"], "unique-operand")


@st.composite
def unique_case(draw, tier):
    return {"a": draw(gen.ragged(tier, dup=draw(st.booleans()), wide=True)), "axis": draw(st.sampled_from([-1, 1, -1, 1, None])),
            "counts": draw(st.booleans()), "lz": draw(st.sampled_from(LAZY_CHOICES))}


def body_diff(case, ctx):
    a, rows, ra = common(case, ctx, "n:" + str(case["n"]))
    n = case["n"]
    with np.errstate(all="ignore"):
        exp = [np.diff(r, n=n) for r in rows]
        kw = {}
        if case["axis"] is not None:
            kw["axis"] = case["axis"]
        got = lib_twice(lambda: np.diff(ra, n=n, **kw) if n != 1 or case["pass_n"] else np.diff(ra, **kw))
    if any(len(r) <= n for r in rows):
        ctx.label("row-too-short")
        ctx.nt()
    expect_ragged(got, exp, "diff", exp_dtype=np.diff(np_flat(a)[:2], n=min(n, 1)).dtype if len(a["lens"]) else None, n=n)
    expect_unchanged(ra, rows, a["dt"], "diff-operand")


@st.composite
def diff_case(draw, tier):
    return {"a": draw(gen.ragged(tier, wide=True)), "n": draw(st.sampled_from([0, 1, 1, 1, 2, 2, 3, 4, 5])), "pass_n": draw(st.booleans()),
            "axis": draw(st.sampled_from([-1, 1, None])), "lz": draw(st.sampled_from(LAZY_CHOICES))}


def body_sequence(case, ctx):
    """2-5 steps on ONE evolving array: a row-wise scan/reordering replaces the current array by its result; an in-place
    write changes a cell of the current array.  Every result equals numpy applied to each row of the model."""
    a = case["a"]
    rows = [r.copy() for r in np_rows(a)]
    cur = lazy_ra(rows, a["dt"], case["lz"])
    ctx.label(*gen.shape_labels(a["lens"]), "dt:" + a["dt"], "steps:%d" % len(case["steps"]))
    ctx.nt(len(case["steps"]) >= 2 and any(s[0] == "write" for s in case["steps"]))
    with np.errstate(all="ignore"):
        for k, st_ in enumerate(case["steps"]):
            ctx.label("seq:" + st_[0])
            info = dict(step=k, op=st_, before=case["steps"][:k])
            if st_[0] == "write":
                cells = [(i, j) for i, r in enumerate(rows) for j in range(len(r))]
                if not cells:
                    continue
                i, j = cells[st_[1] % len(cells)]
                dtk = rows[i].dtype
                v = np.array(bool(st_[2] % 2)) if dtk == bool else np.array(abs(st_[2]) if dtk.kind == "u" else st_[2], dtype=dtk)
                out = lib(cur.__setitem__, (i, j), v)
                if not out.ok:
                    raise Violation("seq-write:refused", got=out.brief(), **info)
                rows[i][j] = v
                expect_ragged(lib(lambda: cur), rows, "seq-after-write", **info)
                continue
            name = st_[0]
            if name == "sort":
                exp, f = [np.sort(r) for r in rows], (lambda: cur.sort())
            elif name == "unique":
                exp, f = [np.unique(r) for r in rows], (lambda: np.unique(cur, axis=-1))
            elif name == "diff":
                exp, f = [np.diff(r) for r in rows], (lambda: np.diff(cur, axis=-1))
            elif name == "cumsum":
                if rows and rows[0].dtype.kind not in "iu" or not sum(len(r) for r in rows):
                    continue
                exp, f = [np.cumsum(r) for r in rows], (lambda: np.cumsum(cur, axis=-1))
            else:
                raise ValueError(name)
            got = lib(f)
            expect_ragged(got, exp, "seq-" + name, **info)
            rows = [np.array(e) for e in exp]
            cur = got.value


@st.composite
def sequence_case(draw, tier):
    a = draw(gen.ragged(tier, dts=["int64", "int8", "uint8", "float64", "bool", "int32"], specials=False, min_rows=1))
    step = st.one_of(st.sampled_from([["sort"], ["unique"], ["diff"], ["cumsum"], ["sort"], ["unique"]]),
                     st.tuples(st.just("write"), st.integers(0, 1000), st.integers(-100, 100)).map(list))
    return {"a": a, "steps": draw(st.lists(step, min_size=2, max_size=5)), "lz": draw(st.sampled_from(LAZY_CHOICES))}


SUBCHECKS = [
    SubCheck("cumsum", body_cumsum, cumsum_case, quick=6000, thorough=500000, shards_quick=3,
             doc="np.cumsum / .cumsum(axis=-1|1) on integer dtypes (wrap-around as numpy), axis=None, non-integer dtypes rejected"),
    SubCheck("accumulate", body_accumulate, accumulate_case, quick=8000, thorough=700000, shards_quick=4,
             doc="add / subtract / bitwise_xor .accumulate restart at every row; all dtypes numpy defines; floats exact dyadic"),
    SubCheck("sort", body_sort, plain_case, quick=4000, thorough=400000, shards_quick=2,
             doc="sort(axis=-1|1|default) sorts each row independently (NaN last, as numpy)"),
    SubCheck("unique", body_unique, unique_case, quick=6000, thorough=500000, shards_quick=3,
             doc="np.unique(axis=-1|1|None, return_counts) = per-row sorted distinct values and multiplicities"),
    SubCheck("diff", body_diff, diff_case, quick=6000, thorough=500000, shards_quick=3,
             doc="np.diff of order 0..5 per row; rows shorter than n become empty"),
    SubCheck("scan-sequence", body_sequence, sequence_case, quick=5000, thorough=300000, shards_quick=3,
             doc="2-5 steps on one evolving array (sort / unique / diff / cumsum replace it by their result; in-place cell writes "
                 "in between), each result compared with numpy per row - state carried by results shows up here"),
    SubCheck("probe-K2-float-accumulate", body_accumulate_inexact, lambda tier: accumulate_case(tier, inexact=True),
             quick=300, thorough=3000, shards_quick=1, shards_thorough=1, finding_id="K2-float-accumulate-inexact",
             doc="directed probe: float add/subtract accumulate with non-finite or not exactly representable partial sums"),
]
