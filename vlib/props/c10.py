"""C10  Looking at an array never changes anything."""
import numpy as np
from hypothesis import strategies as st

from .. import gen
from ..core import SubCheck
from ..prog import run_program, READ_KINDS
from ..oracle import LAZY_CHOICES
from . import c06

RULE = ("Histories = the C06 program space (construction, selections of selections, ufuncs, array functions, reductions, "
        "assignments to any live array incl. sources) plus k >= 1 read-only operations {repr, str, iter, tolist, ravel, "
        "len/size/shape/dtype, index reads incl. an integer row, a ufunc, a reduction, array functions, column sum, padded "
        "matrix} inserted at generated positions on generated live variables.  Metamorphic oracle: world A runs the history, "
        "world B runs it with the reads inserted; every step status, every value read by the history's own steps and the "
        "final content of every variable must be identical.  Non-trivial = at least one inserted read lands on a pending "
        "(never materialised) view while steps remain to be executed."
        "  Reads include ufuncs whose other operand is a view of the array's own cells, a one-element array or a row vector (operands must be unchanged); histories include a second array constructed on the first one's buffer.")
ASSUMPTIONS = ["writes to X while a never-materialised selection over X's buffer is live are skipped in both worlds "
               "(counted): that region is the listed known finding K1, exercised by the directed probe",
               "applicability of steps is decided on a third, freshly-rebuilt world so that deciding is not itself a read"]

READ_NAMED = st.tuples(st.integers(0, 8), c06.VAR, st.sampled_from(READ_KINDS)).map(list)
# ... or any non-writing operation of the program vocabulary (index, ufunc, reduction, array function, observer)
READ_OP = st.tuples(st.integers(0, 8), st.just("step"), st.one_of(c06.INDEX, *c06.PRODUCERS, *c06.OBSERVERS)).map(list)


@st.composite
def read_st(draw):
    return draw(READ_NAMED) if draw(st.integers(0, 2)) == 0 else draw(READ_OP)


READ = read_st()


def body_history(case, ctx):
    ctx.label(*gen.shape_labels(case["lens"]), "depth:%d" % len(case["steps"]), "reads:%d" % min(len(case["reads"]), 4))
    n = len(case["steps"])
    reads = [[p % n, v, k] for p, v, k in case["reads"]]
    if any(v == "step" and k[0] in ("assign", "fill", "maskassign", "assign-from", "rowwrite") for _, v, k in reads):
        raise AssertionError("a writer was generated as a read")   # harness error, cannot happen with READ_OP
    it, landed = run_program(case, "reads", ctx, reads=reads)
    ctx.nt(landed > 0)


@st.composite
def history_case(draw, tier):
    return {"lens": draw(gen.lengths(tier, min_rows=1, max_rows=5)), "steps": draw(st.lists(c06.STEP_ANY, min_size=2, max_size=8)),
            "reads": draw(st.lists(READ, min_size=1, max_size=4))}


def body_twin_read(case, ctx):
    """the canonical scenario of the property: a selection (of a selection) is created, world B looks at it, then ONE
    operation of the full vocabulary is applied to it and observed - its outcome must not depend on the look"""
    k = case["k"]
    ctx.label("views:%d" % k, "read:" + str(case["read"]))
    it, landed = run_program(case, "reads", ctx, reads=[[k, -1, case["read"]]])
    ctx.nt(landed > 0)


CSTEP = st.tuples(st.one_of(st.none(), st.integers(-4, 4)), st.one_of(st.none(), st.none(), st.integers(-4, 4)), st.sampled_from([-1, -1, -2, 2, 3, None])).map(
    lambda t: ["s", t[0], t[1], t[2]])


@st.composite
def twin_read_case(draw, tier):
    if draw(st.integers(0, 2)) == 0:
        # stacked stepped column slices: a column-sliced selection is column-sliced again (world B looks at it in between)
        rs = st.one_of(st.just(["s", None, None, None]), c06.SL, st.tuples(st.integers(-3, 3), st.booleans()).map(lambda t: ["i", t[0], t[1]]))
        steps = [["index", 0, draw(st.one_of(st.just(["s", None, None, None]), c06.SL)), draw(CSTEP)], ["index", 1, draw(rs), draw(CSTEP)]]
        steps += draw(st.lists(c06.OBSERVER, max_size=1))
        return {"lens": draw(gen.lengths(tier, min_rows=1, max_rows=5)), "steps": steps, "k": 1, "read": draw(st.sampled_from(READ_KINDS))}
    base = draw(c06.twin_case(tier))
    k = sum(1 for s_ in base["steps"] if s_[0] == "index" and s_ is not base["steps"][-1])
    k = 0
    for s_ in base["steps"]:
        if s_[0] == "index":
            k += 1
        else:
            break
    k = max(1, min(k, len(base["steps"]) - 1))
    return {"lens": base["lens"], "steps": base["steps"], "k": k, "read": draw(st.sampled_from(READ_KINDS))}


def body_shared_buffer(case, ctx):
    """two arrays constructed on one buffer (the second on the flat view of the first, possibly strided or reversed):
    world B looks at the second before the first is written; both worlds must end with the same contents"""
    ctx.label("shared-buffer:" + case["steps"][case["k"] - 1][2], "read:" + str(case["read"]))
    it, landed = run_program(case, "reads", ctx, reads=[[case["k"], -1, case["read"]]])
    ctx.nt(landed > 0)


@st.composite
def shared_buffer_case(draw, tier):
    lens = draw(gen.lengths(tier, min_rows=1, max_rows=5))
    pre = draw(st.lists(st.one_of(*c06.PRODUCERS).map(list), max_size=1))
    src = draw(st.sampled_from([0, 0, -1]))
    steps = list(pre) + [["reflat", src, draw(st.sampled_from(["same", "reversed", "strided"]))]]
    k = len(steps)
    w = list(draw(c06.WRITER))
    w[1] = src if src == 0 else -2          # the array whose buffer the new one was built on
    steps.append(w)
    steps += draw(st.lists(c06.OBSERVER, max_size=2))
    return {"lens": lens, "steps": steps, "k": k, "read": draw(st.sampled_from(READ_KINDS))}


def body_probe_k1(case, ctx):
    """known finding K1: select; (read the selection in world B only); write the source; observe the selection"""
    ctx.label("probe-K1")
    ctx.nt()
    run_program(case, "reads", ctx, reads=[[1, 1, case["read"]]], steer=False)


@st.composite
def probe_case(draw, tier):
    lens = draw(gen.lengths(tier, min_rows=1, min_len=1, max_rows=4, max_len=3))
    sel = draw(c06.INDEX_VIEW)
    sel[1] = 0
    write = draw(st.one_of(st.tuples(st.just("fill"), st.just(0), st.just(-5)).map(list),
                           st.tuples(st.just("assign"), st.just(0), c06.RSEL, st.none(), st.just("scalar")).map(list)))
    return {"lens": lens, "steps": [sel, write, ["tolist", 1]], "read": draw(st.sampled_from(["tolist", "repr", "ravel", "iter", "ufunc"]))}


# ---------------------------------------------------------------- one array, one read, content compared with the rows it was built from

NAMED_REDUCTIONS = ["sum", "prod", "any", "all", "max", "min", "mean", "argmax", "argmin"]
UFUNC_REDUCE = ["add", "multiply", "logical_and", "logical_or", "logical_xor", "bitwise_and", "bitwise_or", "bitwise_xor", "gcd", "hypot",
                "maximum", "minimum"]
SINGLE_READS = ([["named", k] for k in READ_KINDS] + [["reduce", f, sp] for f in NAMED_REDUCTIONS for sp in ("method", "np")]
                + [["reduce-none", f] for f in ("sum", "any", "all", "max", "mean")] + [["ufunc-reduce", u] for u in UFUNC_REDUCE]
                + [["accumulate", u] for u in ("add", "subtract", "bitwise_xor")]
                + [["fn", f] for f in ("cumsum", "sort", "unique", "unique-counts", "diff", "nonzero", "colcounts", "colmean", "getcol0", "astype-float",
                                       "astype-bool", "zeros_like", "where", "subset", "maskindex", "concat1", "neg", "add-scalar", "add-column", "compare",
                                       "equals-self", "rslice", "iter-rows", "row-last", "cell", "col0", "alias", "empty-tuple",
                                       "mul-own-flat", "add-own-row", "sub-own-firsts", "add-one-element", "mul-row-vector",
                                       "diff2", "cumsum-none", "unique-none", "getcol-last", "astype-int8", "padded")])


def apply_single_read(x, read, n, operands=None):
    """operands: the other arrays a read hands to the library are appended as (array, copy made before the call)"""
    from npstructures import ragged_slice
    k = read[0]

    def operand(arr):
        if operands is not None:
            operands.append((arr, arr.copy()))
        return arr
    if k == "named":
        from ..prog import do_read
        return do_read(x, read[1])
    if k == "reduce":
        return getattr(x, read[1])(axis=-1) if read[2] == "method" else getattr(np, read[1])(x, axis=-1)
    if k == "reduce-none":
        return getattr(x, read[1])()
    if k == "ufunc-reduce":
        return getattr(np, read[1]).reduce(x, axis=-1)
    if k == "accumulate":
        return getattr(np, read[1]).accumulate(x, axis=-1).tolist()
    f = read[1]
    if f == "cumsum":
        return np.cumsum(x, axis=-1).tolist()
    if f == "sort":
        return x.sort().tolist()
    if f == "unique":
        return np.unique(x, axis=-1).tolist()
    if f == "unique-counts":
        return [r.tolist() for r in np.unique(x, axis=-1, return_counts=True)]
    if f == "diff":
        return np.diff(x, axis=-1).tolist()
    if f == "diff2":
        return np.diff(x, n=2, axis=-1).tolist()
    if f == "cumsum-none":
        return np.cumsum(x)
    if f == "unique-none":
        return np.unique(x)
    if f == "getcol-last":
        return x.get_column_values(max(len(r) for r in x) - 1)
    if f == "astype-int8":
        return x.astype("int8").tolist()
    if f == "padded":
        return x.as_padded_matrix(side="left")
    if f == "nonzero":
        return np.nonzero(x)
    if f == "colcounts":
        return x.col_counts()
    if f == "colmean":
        return x.mean(axis=0)
    if f == "getcol0":
        return x.get_column_values(0)
    if f == "astype-float":
        return x.astype("float64").tolist()
    if f == "astype-bool":
        return x.astype(bool).tolist()
    if f == "zeros_like":
        return np.zeros_like(x).tolist()
    if f == "where":
        return np.where(x > 0, x, x).tolist()
    if f == "subset":
        return x.subset(x > 0).tolist()
    if f == "maskindex":
        return x[x > 0]
    if f == "concat1":
        return np.concatenate([x, x], axis=-1).tolist()
    if f == "neg":
        return (abs(x)).tolist()
    if f == "add-scalar":
        return (x + 1).tolist()
    if f == "add-column":
        return (x + operand(np.arange(n).reshape(n, 1))).tolist()
    if f == "mul-own-flat":          # operands that are views of the array's own cells (shapes permitting)
        return (x * x.ravel()).tolist()
    if f == "add-own-row":
        return (x + x[-1]).tolist()
    if f == "sub-own-firsts":
        return (x - operand(np.array([r[0] for r in x]).reshape(n, 1))).tolist()
    if f == "add-one-element":
        return (x + operand(np.array([5], dtype=x.dtype))).tolist()
    if f == "mul-row-vector":
        return (x * operand(np.arange(len(x[0]), dtype=x.dtype))).tolist()
    if f == "compare":
        return (x == x).tolist()
    if f == "equals-self":
        return x.equals(x)
    if f == "rslice":
        return ragged_slice(x, np.zeros(n, dtype=int)).tolist()
    if f == "iter-rows":
        return [r.sum() for r in x]
    if f == "row-last":
        return x[-1]
    if f == "cell":
        return x[0, 0]
    if f == "col0":
        return x[:, 0]
    if f == "alias":
        return x[...].tolist()
    if f == "empty-tuple":
        return x[()].tolist()
    raise ValueError(read)


def _selftest_reads():
    """every read of the vocabulary must be executable on an ordinary array: a typo in the harness would otherwise be
    swallowed as a 'refused read' and make the sub-check vacuous"""
    from npstructures import RaggedArray
    for read in SINGLE_READS:
        x = RaggedArray(np.array([3, 1, 2, 5, 4], dtype=np.int64), [2, 3])
        try:
            apply_single_read(x, read, 2)
        except Exception as e:  # noqa: BLE001 - a refusal by the library is fine here; an error raised in our own frame is not
            from ..oracle import _raised_in_harness
            if _raised_in_harness(e) or isinstance(e, (NameError, ImportError)):
                raise AssertionError(f"harness self-test: read {read} failed on a plain array: {e!r}")


_SELFTESTED = []


def body_single_read(case, ctx):
    """Read-only operations never change the content of any array: one array (fresh or a pending selection), one read-only
    operation of a broad vocabulary (its own outcome is not asserted here, it may even be refused), then the array must still
    hold exactly the rows it was built from, and a follow-up broadcast against a float column must still equal numpy's."""
    from ..oracle import np_rows, np_flat, lazy_ra, expect_unchanged, lib, arrays_equal
    from ..core import Violation
    if not _SELFTESTED:
        _selftest_reads()
        _SELFTESTED.append(True)
    a, read = case["a"], case["read"]
    rows = np_rows(a)
    n = len(rows)
    x = lazy_ra(rows, a["dt"], case["lz"])
    ctx.label(*gen.shape_labels(a["lens"]), "dt:" + a["dt"], "read:" + ":".join(str(t) for t in read[:2]), "pending" if case["lz"] else "fresh",
              "uniform-lengths" if len(set(a["lens"])) == 1 else "mixed-lengths")
    ctx.nt(a["dt"] != "int64" or len(set(a["lens"])) == 1)
    with np.errstate(all="ignore"):
        operands = []
        glob0 = (dict(np.get_printoptions()), dict(np.geterr()))
        lib(apply_single_read, x, read, n, operands)
        glob1 = (dict(np.get_printoptions()), dict(np.geterr()))
        if repr(glob1) != repr(glob0):
            # process-wide numpy settings decide how every later result prints / which warnings later operations raise
            import inspect
            ok_keys = set(inspect.signature(np.set_printoptions).parameters)
            try:
                np.set_printoptions(**{k: v for k, v in glob0[0].items() if k in ok_keys})
                np.seterr(**glob0[1])
            except Exception:  # noqa: BLE001 - restoring is best effort; the violation below is what matters
                pass
            raise Violation("read-changed-global-numpy-state", read=read, before=repr(glob0)[:300], after=repr(glob1)[:300])
        expect_unchanged(x, rows, a["dt"], "read-changed-content", read=read)
        read2 = case.get("read2")
        if read2 is not None:
            # a second read of the same object answers what it answers on a twin that was never read before
            from ..oracle import norm, same
            ctx.label("second-read:" + ":".join(str(t) for t in read2[:2]))
            twin = lazy_ra(rows, a["dt"], case["lz"])
            second = lib(lambda: norm(apply_single_read(x, read2, n)))
            ref = lib(lambda: norm(apply_single_read(twin, read2, n)))
            if second.ok != ref.ok or (second.ok and not same(second.value, ref.value)):
                raise Violation("second-read-depends-on-first", first=read, second=read2, after_first=second.brief(), on_unread_twin=ref.brief())
            expect_unchanged(x, rows, a["dt"], "second-read-changed-content", read=read2)
        for arr, before in operands:
            if arr.shape != before.shape or arr.dtype != before.dtype or not arrays_equal(arr, before):
                raise Violation("read-changed-operand", read=read, before=before.tolist(), after=arr.tolist())
        col = np.array([[float("inf"), 0.1, 1e300, -2.5, 7.0][i % 5] for i in range(n)], dtype=np.float64).reshape(n, 1)
        exp = lib(lambda: np.maximum(np_flat(a), np.repeat(col.ravel(), a["lens"])))
        if exp.ok:
            got = lib(lambda: np.asarray(np.maximum(x, col).ravel()))
            if not got.ok or not arrays_equal(got.value, exp.value):
                raise Violation("read-changed-later-outcome", read=read, expected=exp.brief(), got=got.brief())


@st.composite
def single_read_case(draw, tier):
    dt = draw(st.sampled_from(gen.ALL_DT))
    mode = draw(st.integers(0, 3))
    if mode == 0:      # uniform row lengths (every row its own reduction / rectangular)
        L = draw(st.sampled_from([1, 1, 1, 2, 3, 0, 40]))       # 40: rows wider than one printed line
        lens = [L] * draw(st.sampled_from([1, 1, 2, 3, 4, 5]))
        a = {"lens": lens, "dt": dt, "vals": draw(gen.flat_values(dt, sum(lens), specials=False))}
    else:
        a = draw(gen.ragged(tier, dts=[dt], min_rows=1, specials=False))
    read = draw(st.sampled_from(SINGLE_READS))
    # the second read: often the same kind of operation with other arguments
    fam = [r for r in SINGLE_READS if r[0] == read[0] and str(r[1])[:4] == str(read[1])[:4]]
    read2 = draw(st.one_of(st.none(), st.sampled_from(SINGLE_READS), st.sampled_from(fam)))
    return {"a": a, "read": read, "read2": read2, "lz": draw(st.sampled_from(LAZY_CHOICES))}


SUBCHECKS = [
    SubCheck("histories", body_history, history_case, quick=14000, thorough=1000000, shards_quick=14,
             doc="program with vs. without inserted read-only operations (K1 region steered around)"),
    SubCheck("histories-coverage-guided", body_history, history_case, kind="atheris", quick=0, thorough=1200000, shards_thorough=16,
             doc="thorough only: atheris/libFuzzer drives the history strategy through Hypothesis' fuzz_one_input (16 campaigns)"),
    SubCheck("shared-buffer-with-read", body_shared_buffer, shared_buffer_case, quick=4000, thorough=300000, shards_quick=3,
             doc="a second array constructed on the (strided / reversed) flat view of the first; world B reads it before the first "
                 "is written; final contents of both arrays must agree between the worlds"),
    SubCheck("twin-with-read", body_twin_read, twin_read_case, quick=8000, thorough=500000, shards_quick=5,
             doc="1-2 compounding selections; world B reads the deepest pending view; then one operation of the 40-operation "
                 "vocabulary on that view plus observers - same outcome in both worlds"),
    SubCheck("single-read-preserves-content", body_single_read, single_read_case, quick=14000, thorough=800000, shards_quick=8,
             doc="one array of any dtype / shape (uniform row lengths boosted), one of ~90 read-only operations, then content and a "
                 "follow-up broadcast are compared with the generating rows / numpy"),
    SubCheck("probe-K1-lazy-selection-aliases-source", body_probe_k1, probe_case, quick=300, thorough=3000, shards_quick=1, shards_thorough=1,
             finding_id="K1-lazy-selection-aliases-source",
             doc="directed probe: select; optional read; write source; observe - the selection's content depends on whether it was read first"),
]
