"""C10  Looking at an array never changes anything."""
from hypothesis import strategies as st

from .. import gen
from ..core import SubCheck
from ..prog import run_program, READ_KINDS
from . import c06

RULE = ("Histories = the C06 program space (construction, selections of selections, ufuncs, array functions, reductions, "
        "assignments to any live array incl. sources) plus k >= 1 read-only operations {repr, str, iter, tolist, ravel, "
        "len/size/shape/dtype, index reads incl. an integer row, a ufunc, a reduction, array functions, column sum, padded "
        "matrix} inserted at generated positions on generated live variables.  Metamorphic oracle: world A runs the history, "
        "world B runs it with the reads inserted; every step status, every value read by the history's own steps and the "
        "final content of every variable must be identical.  Non-trivial = at least one inserted read lands on a pending "
        "(never materialised) view while steps remain to be executed.")
ASSUMPTIONS = ["writes to X while a never-materialised selection over X's buffer is live are skipped in both worlds "
               "(counted): that region is the listed known finding K1, exercised by the directed probe",
               "applicability of steps is decided on a third, freshly-rebuilt world so that deciding is not itself a read"]

READ = st.tuples(st.integers(0, 8), c06.VAR, st.sampled_from(READ_KINDS)).map(list)


def body_history(case, ctx):
    ctx.label(*gen.shape_labels(case["lens"]), "depth:%d" % len(case["steps"]), "reads:%d" % min(len(case["reads"]), 4))
    n = len(case["steps"])
    reads = [[p % n, v, k] for p, v, k in case["reads"]]
    it, landed = run_program(case, "reads", ctx, reads=reads)
    ctx.nt(landed > 0)


@st.composite
def history_case(draw, tier):
    return {"lens": draw(gen.lengths(tier, min_rows=1, max_rows=5)), "steps": draw(st.lists(c06.STEP_ANY, min_size=2, max_size=8)),
            "reads": draw(st.lists(READ, min_size=1, max_size=4))}


def body_probe_k1(case, ctx):
    """known finding K1: select; (read the selection in world B only); write the source; observe the selection"""
    ctx.label("probe-K1")
    ctx.nt()
    run_program(case, "reads", ctx, reads=[[1, 1, case["read"]]], steer=False)


@st.composite
def probe_case(draw, tier):
    lens = draw(gen.lengths(tier, min_rows=1, min_len=1, max_rows=4, max_len=3))
    sel = draw(c06.INDEX_VIEW)
    sel[1] = 0
    write = draw(st.one_of(st.tuples(st.just("fill"), st.just(0), st.just(-5)).map(list),
                           st.tuples(st.just("assign"), st.just(0), c06.RSEL, st.none(), st.just("scalar")).map(list)))
    return {"lens": lens, "steps": [sel, write, ["tolist", 1]], "read": draw(st.sampled_from(["tolist", "repr", "ravel", "iter", "ufunc"]))}


SUBCHECKS = [
    SubCheck("histories", body_history, history_case, quick=14000, thorough=1000000, shards_quick=14,
             doc="program with vs. without inserted read-only operations (K1 region steered around)"),
    SubCheck("probe-K1-lazy-selection-aliases-source", body_probe_k1, probe_case, quick=300, thorough=3000, shards_quick=1, shards_thorough=1,
             finding_id="K1-lazy-selection-aliases-source",
             doc="directed probe: select; optional read; write source; observe - the selection's content depends on whether it was read first"),
]
