"""C02  Indexing reads exactly the addressed cells, or refuses."""
import itertools

import numpy as np
from hypothesis import strategies as st

from .. import gen
from ..core import SubCheck, Violation
from ..oracle import (LAZY_CHOICES, lazy_ra, lib, model_index, poscoded, ra_from_rows, py_sel, sel_kind, selected_rows,
                      expect_ragged, expect_array, expect_refused, expect_unchanged, np_rows, mk_ra)

RULE = ("Cases = (row-length vector, row selector, optional column selector, surface form) drawn from the index "
        "grammar of DESIGN.md section 3 over position-coded int64 content (cell = 1000*row+col), compared with "
        "Python list/slice semantics on the list of rows.  Non-trivial = the selection contains an empty row, or a "
        "slice bound is clamped (beyond the row count / a selected row's length), or a step is negative or |step|>1, "
        "or refusal is expected.  distinct = distinct canonical JSON of the case."
        "  The indexed array is fresh, one of 6 kinds of pending selection, or the result of a[...], a[()], a ufunc, astype, concatenate; row lists include perturbed identity lists and lists with one entry just outside [-n, n) (refused).")
ASSUMPTIONS = ["Python list/slice semantics and numpy per-row application are the oracle",
               "sizes bounded (<= 40 rows, rows <= 70 cells); selectors outside the stated grammar are not asserted"]

FORMS_NOCOL = ["plain", "tuple1", "r-ell"]
FORMS_COL = ["pair", "triple"]


def build_index(r, c, form):
    if (c is not None or form != "plain") and r[0] == "i" and r[2] == 2:
        r = ["i", r[1], True]      # a 0-d array is an integer index only in the single-index form ra[k] (explicit branch in the library);
        #                            inside a tuple the library does not treat it as one, and the property's grammar says "integer"
    if c is not None and c[0] == "i" and c[2] == 2:
        c = ["i", c[1], True]
    pr = py_sel(r)
    if c is None:
        if form == "tuple1":
            return (pr,)
        if form == "r-ell":
            return (pr, Ellipsis)
        if form == "empty-tuple":
            return ()
        return pr
    pc = py_sel(c)
    if form == "triple":
        return (pr, Ellipsis, pc)
    return (pr, pc)


def classify(lens, r, c, m, ctx):
    rows = [[0] * l for l in lens]
    n = len(lens)
    ctx.label("r:" + sel_kind(r), "c:" + sel_kind(c))
    nt = False
    if m[0] == "refuse":
        ctx.label("expect-refusal")
        nt = True
    sel = selected_rows(rows, r)
    if sel is not None and any(len(x) == 0 for x in sel):
        ctx.label("selects-empty-row")
        nt = True
    for s, lim in ((r, [n]), (c, [len(x) for x in sel] if sel else [])):
        if s is not None and s[0] == "s":
            st_ = s[3]
            if st_ is not None and st_ < 0:
                ctx.label("neg-step")
                nt = True
            if st_ is not None and abs(st_) > 1:
                ctx.label("wide-step")
                nt = True
            for b in (s[1], s[2]):
                if b is not None and any(abs(b) > l for l in lim):
                    ctx.label("clamped")
                    nt = True
    ctx.nt(nt)


def check_index(ra, rows, r, c, form, exp_dtype="int64", **info):
    m = model_index(rows, r, c)
    idx = build_index(r, c, form)
    out = lib(lambda: ra[idx])
    what = "index"
    if m[0] == "refuse":
        expect_refused(out, what, **info)
    elif m[0] == "rows":
        expect_ragged(out, [np.array(x, dtype=exp_dtype) for x in m[1]], what, exp_dtype=exp_dtype, **info)
    elif m[0] in ("row", "cells"):
        expect_array(out, np.array(m[1], dtype=exp_dtype), what, **info)
    else:  # cell
        if not out.ok:
            raise Violation(what + ":unexpected-refusal", expected=m[1], got=out.brief(), **info)
        v = out.value
        if not (isinstance(v, (np.generic, int, float, bool)) or (isinstance(v, np.ndarray) and v.ndim == 0)):
            raise Violation(what + ":result-kind", expected="scalar", got=out.brief(), **info)
        expect_array(lib(lambda: np.asarray(v)), np.array(m[1], dtype=exp_dtype), what, **info)
    return m


def body_pos(case, ctx):
    lens, r, c, form = case["lens"], case["r"], case["c"], case["form"]
    rows = poscoded(lens)
    lz = case.get("lz", 0)
    ra = lazy_ra(rows, "int64", lz)      # "every ragged array": freshly built, or itself a pending selection
    m = model_index(rows, r, c)
    ctx.label(*gen.shape_labels(lens), "form:" + form, "source:pending" if lz else "source:fresh")
    classify(lens, r, c, m, ctx)
    check_index(ra, rows, r, c, form)
    expect_unchanged(ra, rows, "int64", "index")


@st.composite
def pos_case(draw, tier):
    lens = draw(gen.lengths(tier))
    n = len(lens)
    L = max(lens) if lens else 0
    r = draw(gen.rowsel(n))
    c = draw(gen.colsel(L))
    if c is None:
        forms = FORMS_NOCOL + (["empty-tuple"] if r[0] == "e" else [])
    else:
        forms = FORMS_COL if r[0] != "e" else ["pair"]   # numpy itself refuses two ellipses
    form = draw(st.sampled_from(forms))
    return {"lens": lens, "r": r, "c": c, "form": form, "lz": draw(st.sampled_from(LAZY_CHOICES))}


def body_dtype(case, ctx):
    """dtype preservation and value identity on arbitrary element content"""
    a, r, c = case["a"], case["r"], case["c"]
    rows = np_rows(a)
    ra = lazy_ra(rows, a["dt"], case.get("lz", 0))
    lrows = [list(x) for x in rows]
    m = model_index(lrows, r, c)
    ctx.label("dt:" + a["dt"])
    classify(a["lens"], r, c, m, ctx)
    ctx.nt(a["dt"] != "int64" and sum(a["lens"]) > 0)
    # numpy scalars in lists keep their dtype when re-wrapped
    check_index(ra, lrows, r, c, "plain" if c is None else "pair", exp_dtype=a["dt"])
    expect_unchanged(ra, rows, a["dt"], "index")


@st.composite
def dtype_case(draw, tier):
    a = draw(gen.ragged(tier, wide=True))
    n = len(a["lens"])
    L = max(a["lens"]) if a["lens"] else 0
    return {"a": a, "r": draw(gen.rowsel(n)), "c": draw(gen.colsel(L)), "lz": draw(st.sampled_from(LAZY_CHOICES))}


# ---------------------------------------------------------------- exhaustive small scope

ENUM_MAXROWS = 3
ENUM_MAXLEN = 3


def enum_shapes():
    out = []
    for n in range(ENUM_MAXROWS + 1):
        out.extend([list(t) for t in itertools.product(range(ENUM_MAXLEN + 1), repeat=n)])
    return out


def enum_rowsels(n, norepeat=False):
    sels = [["i", i, False] for i in range(-n - 1, n + 1)]
    bounds = [None, 0, 1, -1, n, -n, n + 1, -n - 1, 2]
    seen = set()
    for a in bounds:
        for b in bounds:
            for s in (None, -1, 2, -2):
                if s is not None or (a, b) not in seen:
                    key = (a, b, s)
                    if key in seen:
                        continue
                    seen.add(key)
    # a fixed family of 30 slices: all (start, stop) over a reduced bound set for 4 steps, thinned
    sl = sorted(seen, key=lambda t: tuple((-99 if x is None else x) for x in t))
    fam = [x for i, x in enumerate(sl) if i % max(1, len(sl) // 30) == 0][:30]
    sels += [["s", a, b, s] for (a, b, s) in fam]
    if n:
        lists = [[]] + [[i] for i in range(-n, n)] + [[i, j] for i in range(-n, n) for j in range(-n, n)]
        if norepeat:
            lists = [l for l in lists if len({i % n for i in l}) == len(l)]
    else:
        lists = [[]]
    sels += [["l", l, "int64"] for l in lists]
    sels += [["m", list(mk), True] for mk in itertools.product([False, True], repeat=n)]
    sels.append(["e"])
    return sels


def enum_colsels():
    B = [None] + list(range(-5, 6))
    S = [None, 1, -1, 2, -2, 3, -3]
    out = [None] + [["i", j, False] for j in range(-5, 6)]
    out += [["s", a, b, s] for a in B for b in B for s in S]
    return out


def enum_chunks(tier):
    return enum_shapes()


def enum_cases(lens):
    n = len(lens)
    cs = enum_colsels()
    for r in enum_rowsels(n):
        for c in cs:
            yield {"lens": lens, "r": r, "c": c, "form": "plain" if c is None else "pair"}


SUBCHECKS = [
    SubCheck("index-poscoded", body_pos, pos_case, quick=24000, thorough=1600000, shards_quick=12,
             doc="random shapes x full index grammar x surface forms vs list-of-rows model"),
    SubCheck("index-dtype", body_dtype, dtype_case, quick=6000, thorough=400000, shards_quick=4,
             doc="same over all element dtypes and arbitrary content: values and dtype preserved"),
    SubCheck("index-enum", body_pos, kind="enum", chunks=enum_chunks, cases=enum_cases,
             doc="exhaustive: all shapes <=3 rows x <=3 cells, fixed row-selector family, all column selectors "
                 "with bounds in None,-5..5 and steps None,+-1,+-2,+-3"),
]
