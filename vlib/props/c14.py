"""C14  Run-length encoding is lossless and canonical."""
import numpy as np
from hypothesis import strategies as st

from .. import gen, rl
from ..core import SubCheck, Violation
from ..oracle import lib, jsonable, arrays_equal

RULE = ("Cases = 1-D arrays of length >= 1 over bool / int8..uint64 / float16/32/64 built from generated runs (all equal, all "
        "different, single element, alternating, few long runs; values incl. dtype extremes, +-0.0, +-inf, NaN).  Oracle = "
        "round trip from_array(a).to_array() and np.asarray(rla) equal a element-wise (NaN == NaN) with the same dtype, "
        "len/size/shape; starts/ends/values equal the run structure of a; validity predicate (boundaries start at 0, strictly "
        "increase, end at the dense length; no adjacent equal runs for encoding, stepped slices and rl-rl ufuncs) on every "
        "RunLengthArray returned by encoding, slicing, ufuncs, concatenation and mask selection.  Non-trivial = at least two "
        "runs and a dtype other than int64."
        "  The array handed to from_array is overwritten by the caller after encoding, decoded arrays after reading; rl-rl ufuncs also on two operands derived from the same encoded array.")
ASSUMPTIONS = ["'equal values' for canonical form means ==; adjacent NaN runs are therefore allowed",
               "encoding merges -0.0 with 0.0 (they compare equal); decoded arrays are compared with =="]


def body_roundtrip(case, ctx):
    a = rl.dense(case["dt"], case["runs"])
    n = len(a)
    st_ = rl.run_structure(a)
    ctx.label("dt:" + case["dt"], "runs:%s" % ("1" if len(st_) == 1 else "n" if len(st_) == n else "few"), "len=1" if n == 1 else "len>1")
    ctx.nt(len(st_) >= 2 and case["dt"] != "int64")
    via = case["via"]
    src = a.tolist() if via == "list" and case["dt"] in ("int64", "float64", "bool") else a
    out = lib(lambda: rl.encode(src))
    rl.expect_rl(out, a, "encode", strict=True)
    x = out.value
    meta = lib(lambda: (len(x), x.size, tuple(x.shape), str(x.dtype), x.ndim))
    if not meta.ok or (int(meta.value[0]), int(meta.value[1]), tuple(int(t) for t in meta.value[2]), meta.value[3], meta.value[4]) != (n, n, (n,), str(a.dtype), 1):
        raise Violation("encode:len-size-shape-dtype", got=meta.brief(), expected=[n, n, [n], str(a.dtype), 1])
    conv = lib(lambda: np.asarray(x))
    if not conv.ok or conv.value.shape != a.shape or not arrays_equal(conv.value, a) or conv.value.dtype != a.dtype:
        raise Violation("encode:np.asarray", got=conv.brief(), expected=jsonable(a))
    s = lib(lambda: (np.asarray(x.starts).tolist(), np.asarray(x.ends).tolist(), np.asarray(x.values)))
    if not s.ok:
        raise Violation("encode:starts-ends-values", got=s.brief())
    starts, ends, values = s.value
    if starts != st_ or ends != st_[1:] + [n] or not arrays_equal(values, a[st_]):
        raise Violation("encode:run-structure", expected_starts=st_, starts=starts, ends=ends, values=jsonable(values))


@st.composite
def rt_case(draw, tier):
    dt = draw(st.sampled_from(rl.RL_DT))
    return {"dt": dt, "runs": draw(rl.runs(dt, tier)), "via": draw(st.sampled_from(["array", "array", "list"]))}


def body_producers(case, ctx):
    """canonical form (and decoded content) of everything the library produces from run-length arrays"""
    from npstructures import RunLengthArray
    op = case["op"]
    a = rl.dense(case["dt"], case["runs"])
    x = rl.encode(a)
    a = rl.decode(x)      # the oracle works on the DECODED operand: encoding merges -0.0 with 0.0, which changes e.g. 1 // x
    # optionally the producer is applied to a *derived* array (whose neighbouring runs may carry equal values)
    pre = case.get("pre") or ["none"]
    with np.errstate(all="ignore"):
        d = None
        if pre[0] == "floordiv":
            d = lib(lambda: (x // 2, a // 2))
        elif pre[0] == "gt":
            d = lib(lambda: (x > a[0], a > a[0]))
        elif pre[0] == "concat-self":
            d = lib(lambda: (np.concatenate([x, x]), np.concatenate([a, a])))
        elif pre[0] == "mul0":
            d = lib(lambda: (x * 0, a * 0))
        if d is not None:
            if not d.ok:
                ctx.label("pre-refused-not-asserted")
                return
            x, a = d.value
            a = np.asarray(a)
            rl.expect_rl(lib(lambda: x), a, "derived-parent", strict=False, pre=pre)
    n = len(a)
    derived = d is not None
    ctx.label("op:" + op[0], "dt:" + case["dt"], "parent:" + pre[0])
    ctx.nt((rl.n_runs(a) >= 2 and case["dt"] != "int64") or derived)
    with np.errstate(all="ignore"):
        if op[0] == "slice":
            s = slice(op[1], op[2], op[3])
            exp = a[s]
            strict = op[3] is not None and abs(op[3]) != 1
            ctx.label("stepped" if strict else "unit-step", "empty-result" if len(exp) == 0 else "nonempty")
            out = lib(lambda: x[s])
            rl.expect_rl(out, exp, "slice", strict=strict, slice=[op[1], op[2], op[3]])
        elif op[0] == "unary":
            uf = getattr(np, op[1])
            e = lib(lambda: uf(a))
            if not e.ok:
                ctx.label("numpy-refuses-not-asserted")
                return
            rl.expect_rl(lib(lambda: uf(x)), e.value, "unary-ufunc", strict=False, uf=op[1])
        elif op[0] == "scalar":
            uf = getattr(np, op[1])
            sc = op[2]
            e = lib(lambda: uf(a, sc) if op[3] == "right" else uf(sc, a))
            if not e.ok:
                ctx.label("numpy-refuses-not-asserted")
                return
            rl.expect_rl(lib(lambda: uf(x, sc) if op[3] == "right" else uf(sc, x)), e.value, "scalar-ufunc", strict=False, uf=op[1], scalar=sc)
        elif op[0] == "binary":
            b = rl.dense(op[2], op[3])
            b = np.resize(b, n) if len(b) else np.zeros(n, dtype=op[2])
            y = rl.encode(b)
            b = rl.decode(y)
            uf = getattr(np, op[1])
            e = lib(lambda: uf(a, b))
            if not e.ok:
                ctx.label("numpy-refuses-not-asserted")
                return
            rl.expect_rl(lib(lambda: uf(x, y)), e.value, "rl-rl-ufunc", strict=True, uf=op[1])
        elif op[0] == "binary-self":
            # both operands derive from the SAME encoded array (x op x, two comparisons of x, x and x // 2 ...)
            uf = getattr(np, op[1])
            der = {"id": lambda v, ref: v, "gt": lambda v, ref: v > ref[len(ref) // 2], "lt": lambda v, ref: v < ref[-1],
                   "half": lambda v, ref: v // 2, "eq0": lambda v, ref: v == ref[0], "neg": lambda v, ref: np.negative(v)}
            e = lib(lambda: uf(der[op[2]](a, a), der[op[3]](a, a)))
            if not e.ok:
                ctx.label("numpy-refuses-not-asserted")
                return
            ctx.label("self-pair:%s-%s" % (op[2], op[3]))
            rl.expect_rl(lib(lambda: uf(der[op[2]](x, a), der[op[3]](x, a))), e.value, "rl-rl-ufunc-same-parent", strict=True, uf=op[1], pair=op[2:])
        elif op[0] == "reencode":
            # the encoder is handed an array-like that is itself a (possibly derived, not run-joined) run-length array
            rl.expect_rl(lib(lambda: RunLengthArray.from_array(x)), a, "encode-of-encoded", strict=True)
        elif op[0] == "concat":
            parts = [a] + [rl.dense(case["dt"], r) for r in op[1]]
            xs = [x] + [rl.encode(p) for p in parts[1:]]
            parts = [a] + [rl.decode(t) for t in xs[1:]]
            for pos in (op[2] if len(op) > 2 else []):
                # an operand without elements (an empty slice of the parent) at any position
                k = pos % (len(xs) + 1)
                e = lib(lambda: x[:0])
                if not e.ok:
                    raise Violation("concatenate:empty-slice-refused", got=e.brief())
                xs.insert(k, e.value)
                parts.insert(k, a[:0])
                ctx.label("empty-operand:" + ("first" if k == 0 else "last" if k == len(xs) - 1 else "middle"))
            rl.expect_rl(lib(lambda: np.concatenate(xs)), np.concatenate(parts), "concatenate", strict=False)
        elif op[0] == "mask":
            m = np.resize(rl.dense("bool", op[1]), n)
            ctx.label("all-false" if not m.any() else "all-true" if m.all() else "mixed-mask")
            if not m.any():
                ctx.label("empty-selection-not-asserted-here")   # C15 owns the all-false mask
                return
            rl.expect_rl(lib(lambda: x[rl.encode(m)]), a[m], "rl-mask-selection", strict=False)
        else:
            raise ValueError(op)
    # the source is still canonical and unchanged
    rl.expect_rl(lib(lambda: x), a, "source-after", strict=not derived)


UNARY = ["negative", "absolute", "logical_not", "square", "sign", "isnan", "invert"]
SCALAR_UF = ["add", "multiply", "subtract", "maximum", "minimum", "equal", "less", "bitwise_and", "floor_divide"]
BINARY_UF = ["add", "multiply", "subtract", "maximum", "minimum", "equal", "less", "bitwise_and", "bitwise_xor", "logical_or"]


@st.composite
def producer_case(draw, tier):
    dt = draw(st.sampled_from(rl.RL_DT))
    runs = draw(rl.runs(dt, tier))
    n = sum(l for _, l in runs)
    kind = draw(st.sampled_from(["slice", "slice", "unary", "scalar", "binary", "binary", "binary-self", "concat", "mask", "reencode"]))
    if kind == "reencode":
        op = ["reencode"]
    elif kind == "binary-self":
        D = st.sampled_from(["id", "id", "gt", "lt", "half", "eq0", "neg"])
        op = ["binary-self", draw(st.sampled_from(BINARY_UF)), draw(D), draw(D)]
    elif kind == "slice":
        op = ["slice", draw(gen.bound(n)), draw(gen.bound(n)), draw(st.sampled_from([None, 1, -1, 2, -2, 3, -3, 5, max(n, 1), -max(n, 1)]))]
    elif kind == "unary":
        op = ["unary", draw(st.sampled_from(UNARY))]
    elif kind == "scalar":
        op = ["scalar", draw(st.sampled_from(SCALAR_UF)), draw(st.sampled_from([0, 1, 2, -1, 3, True, 0.5, 2.0])), draw(st.sampled_from(["left", "right"]))]
    elif kind == "binary":
        dt2 = draw(st.sampled_from([dt, dt] + rl.RL_DT))
        op = ["binary", draw(st.sampled_from(BINARY_UF)), dt2, draw(rl.runs(dt2, tier))]
    elif kind == "concat":
        op = ["concat", draw(st.lists(rl.runs(dt, tier, max_runs=4), min_size=0, max_size=3)), draw(st.lists(st.integers(0, 5), max_size=2))]
    else:
        op = ["mask", draw(rl.runs("bool", tier))]
    pre = draw(st.sampled_from([["none"], ["none"], ["none"], ["floordiv"], ["gt"], ["concat-self"], ["mul0"]]))
    return {"dt": dt, "runs": runs, "op": op, "pre": pre}


SUBCHECKS = [
    SubCheck("roundtrip", body_roundtrip, rt_case, quick=10000, thorough=600000, shards_quick=6,
             doc="from_array -> to_array / np.asarray round trip, dtype, len/size/shape, starts/ends/values = run structure, canonical form"),
    SubCheck("producers-canonical", body_producers, producer_case, quick=14000, thorough=900000, shards_quick=8,
             doc="validity predicate + decoded content for slices (unit / stepped / reversed), unary, scalar and rl-rl ufuncs, concatenate, rl-mask selection"),
]
