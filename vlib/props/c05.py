"""C05  Row reductions equal numpy's per-row reductions, empty rows included."""
import numpy as np
from hypothesis import strategies as st

from .. import gen
from ..core import SubCheck, Violation
from ..oracle import LAZY_CHOICES, lib, lib_twice, np_rows, np_flat, lazy_ra, expect_refused, expect_unchanged, jsonable, arrays_equal, same_scalar

RULE = ("Cases = (row-length vector with empty rows in any position incl. all-empty and zero rows, dtype among "
        "bool/int8..uint64/float32/float64 with exact dyadic floats plus inf/nan, reduction, spelling in {method, "
        "np.<name>, ufunc.reduce}, axis spelling -1/1, keepdims, operand fresh or pending view).  Oracle = the numpy "
        "reduction applied to each row alone (identity for empty rows comes from numpy): values and dtype; max/min/"
        "mean/argmax/argmin are compared on non-empty rows only; axis=None equals numpy on the concatenation.  "
        "Non-trivial = an empty row in first/last/consecutive position or all rows empty, or a dtype other than int64."
        "  Every reduction is asked twice, the array returned first being overwritten by the caller in between.")
ASSUMPTIONS = ["float content is exactly representable (dyadic pool) so that summation order cannot matter; hypot/"
               "logaddexp results within 4 ulp; means within 2 ulp",
               "max/min/argmax/argmin on zero-row arrays are outside the stated domain"]

NAMED = {"sum": "add", "prod": "multiply", "any": "logical_or", "all": "logical_and"}
IDENT_UFUNCS = ["add", "multiply", "logical_and", "logical_or", "logical_xor", "bitwise_and", "bitwise_or", "bitwise_xor",
                "gcd", "hypot", "logaddexp", "logaddexp2"]
INEXACT = {"hypot", "logaddexp", "logaddexp2"}


def nontrivial(a):
    lens = a["lens"]
    return (len(lens) > 0 and (lens[0] == 0 or lens[-1] == 0 or any(x == 0 and y == 0 for x, y in zip(lens, lens[1:])))) or a["dt"] != "int64"


def close(g, e, ulps, dtype=None):
    g = np.asarray(g)
    e = np.asarray(e)
    if g.shape != e.shape:
        return False
    if ulps and e.dtype.kind == "f":
        with np.errstate(all="ignore"):
            fin = np.isfinite(e) & np.isfinite(g)
            if not arrays_equal(np.where(fin, 0, g), np.where(fin, 0, e)):
                return False
            tol = ulps * np.finfo(e.dtype).eps * np.maximum(np.abs(e[fin]), np.finfo(e.dtype).tiny)
            return bool(np.all(np.abs(g[fin].astype(np.float64) - e[fin].astype(np.float64)) <= tol))
    return arrays_equal(g, e)


NAMED_UF = {"max": "maximum", "min": "minimum"}


def call(ra, name, spell, axis, keepdims):
    kw = {"axis": axis}
    if keepdims:
        kw["keepdims"] = True
    if spell == "method":
        return getattr(ra, name)(**kw)
    if spell == "np":
        return getattr(np, name)(ra, **kw)
    return getattr(np, NAMED.get(name) or NAMED_UF.get(name) or name).reduce(ra, axis=axis)


def check_vector(got, exp, what, n, keepdims, ulps=0, only=None, **info):
    """got: guarded outcome; exp: 1-D expected array with n entries; only: bool mask of entries to compare"""
    if not got.ok:
        raise Violation(what + ":unexpected-refusal", got=got.brief(), expected=jsonable(exp), **info)
    v = got.value
    if not isinstance(v, np.ndarray):
        raise Violation(what + ":result-kind", got=got.brief(), **info)
    want_shape = (n, 1) if keepdims else (n,)
    if v.shape != want_shape:
        raise Violation(what + ":shape", expected=list(want_shape), got=list(v.shape), **info)
    v = v.reshape(n)
    g, e = (v, exp) if only is None else (v[only], exp[only])
    if not close(g, e, ulps):
        raise Violation(what + ":values", expected=jsonable(exp), got=jsonable(v), compared=jsonable(only), **info)
    if e.size and v.dtype != exp.dtype:
        raise Violation(what + ":dtype", expected=str(exp.dtype), got=str(v.dtype), **info)


def body_named(case, ctx):
    """sum / prod / any / all on all shapes; max / min / mean on shapes with >= 1 row (non-empty rows compared)"""
    a, name, spell, axis, keep = case["a"], case["f"], case["spell"], case["axis"], case["keepdims"]
    rows = np_rows(a)
    n = len(rows)
    ctx.label(*gen.shape_labels(a["lens"]), "f:" + name, "spell:" + spell, "dt:" + a["dt"], "keepdims" if keep else "flat",
              "lazy" if case["lz"] else "fresh")
    ctx.nt(nontrivial(a))
    ra = lazy_ra(rows, a["dt"], case["lz"])
    with np.errstate(all="ignore"):
        f = getattr(np, name)
        if name in NAMED:
            exp = lib(lambda: np.array([f(r) for r in rows]) if n else np.zeros(0))
            only = None
        else:
            ne = np.array([len(r) > 0 for r in rows], dtype=bool)
            first = next((r for r in rows if len(r)), None)
            if first is None:
                ctx.label("all-empty-no-claim")
                # nothing is claimed for empty rows; the call itself is not asserted either when no row has a value
                return
            filler = f(first)
            exp = lib(lambda: np.array([f(r) if len(r) else filler for r in rows]))
            only = ne
        got = lib_twice(call, ra, name, spell, axis, keep)
    info = dict(f=name, spell=spell)
    if not exp.ok:
        ctx.label("numpy-refuses")
        expect_refused(got, "reduce", numpy_raises=repr(exp.exc)[:200], **info)
    else:
        check_vector(got, exp.value, "reduce", n, keep, ulps=2 if name == "mean" else 0, only=only, **info)
    expect_unchanged(ra, rows, a["dt"], "reduce-operand")


def plant_neutral(draw, a, f):
    """now and then one or two rows hold nothing but the value that is neutral for the reduction in the row's element
    type (lowest value for max, highest for min, 0 for sums, 1 for products, ...): the value an implementation may also
    use for padding or for empty rows"""
    dt, lens = a["dt"], a["lens"]
    if draw(st.integers(0, 3)) != 0 or not any(lens):
        return a
    kind = {"max": "lo", "maximum": "lo", "argmax": "lo", "fmax": "lo", "min": "hi", "minimum": "hi", "argmin": "hi", "fmin": "hi",
            "prod": 1, "multiply": 1, "all": 1, "logical_and": 1, "bitwise_and": "hi-bits"}.get(f, 0)
    if dt == "bool":
        v = kind in ("hi", 1, "hi-bits")
    elif dt in gen.FLOAT_DT:
        v = float("-inf") if kind == "lo" else float("inf") if kind in ("hi", "hi-bits") else float(kind)
    else:
        lo, hi = gen.int_range(dt)
        v = lo if kind == "lo" else hi if kind == "hi" else (-1 if lo < 0 else hi) if kind == "hi-bits" else kind
    vals = list(a["vals"])
    nonempty = [i for i, l in enumerate(lens) if l]
    for pick in draw(st.lists(st.integers(0, 50), min_size=1, max_size=2)):
        i = nonempty[pick % len(nonempty)]
        s0 = sum(lens[:i])
        for j in range(s0, s0 + lens[i]):
            vals[j] = v
    return {"lens": lens, "dt": dt, "vals": vals}


@st.composite
def named_case(draw, tier):
    name = draw(st.sampled_from(["sum", "prod", "any", "all", "max", "min", "mean"]))
    mag = 2**40 if name == "mean" else None
    a = plant_neutral(draw, draw(gen.ragged(tier, min_rows=0 if name in NAMED else 1, mag=mag)), name)
    spells = ["method", "np"] + (["ufunc"] if name in NAMED or name in ("max", "min") else [])
    spell = draw(st.sampled_from(spells))
    return {"a": a, "f": name, "spell": spell, "axis": draw(st.sampled_from([-1, 1])),
            "keepdims": draw(st.sampled_from([False, False, True])) if spell != "ufunc" else False,
            "lz": draw(st.sampled_from(LAZY_CHOICES))}


def body_ufunc(case, ctx):
    """ufunc.reduce(ra, axis=-1) for every binary ufunc that has an identity"""
    a, name, axis = case["a"], case["f"], case["axis"]
    rows = np_rows(a)
    n = len(rows)
    uf = getattr(np, name)
    ctx.label(*gen.shape_labels(a["lens"]), "uf:" + name, "dt:" + a["dt"], "lazy" if case["lz"] else "fresh")
    ctx.nt(nontrivial(a))
    ra = lazy_ra(rows, a["dt"], case["lz"])
    with np.errstate(all="ignore"):
        # numpy decides acceptance on the operand's dtype, not on its content
        exp = lib(lambda: np.array([uf.reduce(r) for r in rows]) if n else (uf.reduce(np_flat(a)[:0]), np.zeros(0))[1])
        got = lib_twice(lambda: uf.reduce(ra, axis=axis))
    if not exp.ok:
        ctx.label("numpy-refuses")
        if n:   # with zero rows "for every row" is vacuous: nothing is asserted
            expect_refused(got, "ufunc-reduce", numpy_raises=repr(exp.exc)[:200], uf=name)
    else:
        check_vector(got, exp.value, "ufunc-reduce", n, False, ulps=4 if name in INEXACT else 0, uf=name)
    expect_unchanged(ra, rows, a["dt"], "reduce-operand")


@st.composite
def ufunc_case(draw, tier):
    name = draw(st.sampled_from(IDENT_UFUNCS))
    a = draw(gen.ragged(tier, mag=64 if name in INEXACT else None))
    if name not in INEXACT:
        a = plant_neutral(draw, a, name)
    return {"a": a, "f": name, "axis": draw(st.sampled_from([-1, 1])), "lz": draw(st.sampled_from(LAZY_CHOICES))}


def body_arg(case, ctx):
    """argmax / argmin: for every non-empty row the index numpy gives for that row"""
    a, name, spell, axis = case["a"], case["f"], case["spell"], case["axis"]
    rows = np_rows(a)
    n = len(rows)
    has_empty = any(len(r) == 0 for r in rows)
    ctx.label(*gen.shape_labels(a["lens"]), "f:" + name, "spell:" + spell, "dt:" + a["dt"], "has-empty-row" if has_empty else "no-empty-row")
    ctx.nt(a["dt"] != "int64" or has_empty)
    if all(len(r) == 0 for r in rows):
        ctx.label("all-empty-no-claim")
        return
    ra = lazy_ra(rows, a["dt"], case["lz"])
    f = getattr(np, name)
    exp_ne = np.array([f(r) for r in rows if len(r)])
    got = lib_twice(lambda: getattr(ra, name)(axis=axis) if spell == "method" else f(ra, axis=axis))
    if not got.ok:
        raise Violation("arg:unexpected-refusal", got=got.brief(), f=name)
    v = np.asarray(got.value)
    if not has_empty:
        if v.shape != (n,) or not arrays_equal(v, exp_ne):
            raise Violation("arg:values", expected=jsonable(exp_ne), got=jsonable(v), f=name)
    else:
        # the layout for empty rows is not fixed by the property: aligned (one entry per row) or compressed
        ne = np.array([len(r) > 0 for r in rows])
        ok = (v.shape == (n,) and arrays_equal(v[ne], exp_ne)) or (v.shape == exp_ne.shape and arrays_equal(v, exp_ne))
        if not ok:
            raise Violation("arg:values-nonempty-rows", expected=jsonable(exp_ne), got=jsonable(v), f=name)
    if v.dtype.kind not in "iu":
        raise Violation("arg:dtype", got=str(v.dtype))
    expect_unchanged(ra, rows, a["dt"], "reduce-operand")


@st.composite
def arg_case(draw, tier):
    name = draw(st.sampled_from(["argmax", "argmin"]))
    if draw(st.integers(0, 3)) == 0:
        a = draw(gen.ragged(tier, min_rows=1))
    else:
        a = draw(gen.ragged(tier, min_rows=1, min_len=1))
    a = plant_neutral(draw, a, name)
    return {"a": a, "f": name, "spell": draw(st.sampled_from(["method", "np"])), "axis": draw(st.sampled_from([-1, 1])),
            "lz": draw(st.sampled_from(LAZY_CHOICES))}


def body_axis_none(case, ctx):
    """no axis: the reduction over all elements"""
    a, name, spell = case["a"], case["f"], case["spell"]
    rows = np_rows(a)
    flat = np_flat(a)
    ctx.label(*gen.shape_labels(a["lens"]), "f:" + name, "spell:" + spell, "dt:" + a["dt"])
    ctx.nt(nontrivial(a))
    ra = lazy_ra(rows, a["dt"], case["lz"])
    with np.errstate(all="ignore"):
        exp = lib(lambda: getattr(np, name)(flat))
        if spell == "method":
            got = lib(lambda: getattr(ra, name)())
        elif spell == "method-none":
            got = lib(lambda: getattr(ra, name)(axis=None))
        else:
            got = lib(lambda: getattr(np, name)(ra))
    if not exp.ok:
        ctx.label("numpy-refuses")
        expect_refused(got, "axis-none", f=name)
        return
    if not got.ok:
        raise Violation("axis-none:unexpected-refusal", got=got.brief(), f=name, expected=jsonable(exp.value))
    g = got.value
    e = exp.value
    if isinstance(g, np.ndarray) and g.ndim > 0:
        raise Violation("axis-none:result-kind", got=got.brief(), f=name)
    ge = g.item() if isinstance(g, (np.generic, np.ndarray)) else g
    ee = e.item()
    ok = same_scalar(ge, ee)
    if name == "mean" and not ok and isinstance(ge, float) and isinstance(ee, float):
        ok = close(np.float64(ge), np.float64(ee), 2)
    if not ok or (type(ge) is not type(ee)):
        raise Violation("axis-none:value", expected=jsonable(ee), got=jsonable(ge), f=name, types=[type(ee).__name__, type(ge).__name__])
    expect_unchanged(ra, rows, a["dt"], "reduce-operand")


@st.composite
def axis_none_case(draw, tier):
    name = draw(st.sampled_from(["sum", "prod", "any", "all", "max", "min", "mean", "argmax", "argmin"]))
    a = draw(gen.ragged(tier, mag=2**40 if name == "mean" else None))
    return {"a": a, "f": name, "spell": draw(st.sampled_from(["method", "method-none", "np"])), "lz": draw(st.sampled_from(LAZY_CHOICES))}


def body_float_sum(case, ctx):
    """arbitrary finite floats, rows up to 300 elements: reduceat sums sequentially where np.sum sums pairwise, so the
    comparison uses the forward-error bound of re-ordered summation |got - exp| <= 2 n eps sum|x| (a structural error -
    a wrong row boundary, a dropped element - is far outside it because the values have wide magnitudes)"""
    a, name = case["a"], case["f"]
    rows = np_rows(a)
    n = len(rows)
    ctx.label(*gen.shape_labels(a["lens"]), "f:" + name, "dt:" + a["dt"], "row>128" if any(len(r) > 128 for r in rows) else "rows<=128")
    ctx.nt(any(len(r) > 8 for r in rows) and gen.has_mixed_empty(a["lens"]))
    ra = lazy_ra(rows, a["dt"], case["lz"])
    eps = np.finfo(a["dt"]).eps
    with np.errstate(all="ignore"):
        got = lib_twice(lambda: getattr(ra, name)(axis=-1) if case["spell"] == "method" else getattr(np, name)(ra, axis=-1))
    if not got.ok:
        raise Violation("float-sum:unexpected-refusal", got=got.brief())
    v = np.asarray(got.value)
    if v.shape != (n,) or v.dtype != np.dtype(a["dt"]):
        raise Violation("float-sum:shape-or-dtype", got=got.brief(), expected_dtype=a["dt"])
    for i, r in enumerate(rows):
        if len(r) == 0:
            if name == "sum" and v[i] != 0:
                raise Violation("float-sum:empty-row", row=i, got=float(v[i]))
            continue
        r64 = r.astype(np.float64)
        exact = float(np.sum(r64))           # float64 reference of float32/float64 data
        bound = 2 * (len(r) + 1) * eps * float(np.sum(np.abs(r64))) + 4 * float(np.finfo(a["dt"]).tiny)
        e = exact / len(r) if name == "mean" else exact
        b = bound / len(r) + 2 * eps * abs(e) if name == "mean" else bound
        if not abs(float(v[i]) - e) <= b:
            raise Violation("float-sum:outside-reordering-bound", row=i, got=float(v[i]), reference=e, bound=b, n=len(r), f=name)
    expect_unchanged(ra, rows, a["dt"], "reduce-operand")


@st.composite
def float_sum_case(draw, tier):
    dt = draw(st.sampled_from(["float32", "float64"]))
    big = 300 if tier == "thorough" else 150
    lens = draw(st.lists(st.one_of(st.sampled_from([0, 0, 1, 2, 9]), st.integers(0, 40), st.integers(100, big)), min_size=1, max_size=5))
    width = 32 if dt == "float32" else 64
    lim = float(np.float32(1e30)) if dt == "float32" else 1e290
    vals = draw(st.lists(st.floats(min_value=-lim, max_value=lim, allow_nan=False, allow_infinity=False, width=width), min_size=sum(lens), max_size=sum(lens)))
    return {"a": {"lens": lens, "dt": dt, "vals": vals}, "f": draw(st.sampled_from(["sum", "sum", "mean"])),
            "spell": draw(st.sampled_from(["method", "np"])), "lz": draw(st.sampled_from([0, 0, 1, 2]))}


def body_mean_wide(case, ctx):
    """row means of full-range 64-bit (and 32-bit) integers: the exact row sum need not fit 64 bits.  Reference = exact
    rational mean per non-empty row; tolerance = a float64 summation bound, 1e-12 * sum|a| / n"""
    a = case["a"]
    rows = np_rows(a)
    ctx.label(*gen.shape_labels(a["lens"]), "dt:" + a["dt"], "spell:" + case["spell"])
    big = any(abs(sum(int(v) for v in r)) >= 2**63 for r in rows)
    ctx.label("row-sum-leaves-64-bits" if big else "row-sums-fit")
    ctx.nt(big)
    ra = lazy_ra(rows, a["dt"], case["lz"])
    keep = case["keepdims"]
    with np.errstate(all="ignore"):
        got = lib_twice(lambda: ra.mean(axis=-1, keepdims=keep) if case["spell"] == "method" else np.mean(ra, axis=-1, keepdims=keep))
    if not got.ok:
        raise Violation("mean-wide:unexpected-refusal", got=got.brief())
    v = np.asarray(got.value)
    n = len(rows)
    if v.shape != ((n, 1) if keep else (n,)) or v.dtype.kind != "f":
        raise Violation("mean-wide:shape-or-kind", got=got.brief())
    v = v.reshape(n)
    for i, r in enumerate(rows):
        if len(r):
            ints = [int(x) for x in r]
            S = sum(abs(x) for x in ints)
            if abs(float(v[i]) - sum(ints) / len(ints)) > 1e-12 * S / len(ints) + 1e-300:
                raise Violation("mean-wide:value", row=i, expected=sum(ints) / len(ints), got=float(v[i]), values=ints[:12])
    expect_unchanged(ra, rows, a["dt"], "reduce-operand")


@st.composite
def mean_wide_case(draw, tier):
    dt = draw(st.sampled_from(["int64", "uint64", "int64", "int32"]))
    a = draw(gen.ragged(tier, dts=[dt], min_rows=1))
    return {"a": a, "spell": draw(st.sampled_from(["method", "np"])), "keepdims": draw(st.sampled_from([False, False, True])),
            "lz": draw(st.sampled_from(LAZY_CHOICES))}


def body_sequence(case, ctx):
    """2-5 reductions of different kinds (named, ufunc.reduce, argmax / argmin; either spelling, axis -1 / 1, keepdims) asked
    of ONE array object in a generated order: every answer equals numpy's per row, whatever was asked before"""
    global lazy_ra
    a = case["a"]
    ra = lazy_ra(np_rows(a), a["dt"], case["lz"])
    build, lazy_ra = lazy_ra, (lambda *args, **kw: ra)
    try:
        for kind, f, spell, axis, keep in case["ops"]:
            ctx.label("seq:" + kind)
            sub = dict(case, f=f, spell=spell, axis=axis, keepdims=keep)
            if kind == "arg" and all(l == 0 for l in a["lens"]):
                continue
            {"named": body_named, "ufunc": body_ufunc, "arg": body_arg}[kind](sub, ctx)
    finally:
        lazy_ra = build


@st.composite
def sequence_case(draw, tier):
    a = draw(gen.ragged(tier, min_rows=1, mag=2**40))
    named = st.tuples(st.just("named"), st.sampled_from(["sum", "prod", "any", "all", "max", "min", "mean"]), st.sampled_from(["method", "np"]),
                      st.sampled_from([-1, 1]), st.booleans()).map(list)
    uf = st.tuples(st.just("ufunc"), st.sampled_from([u for u in IDENT_UFUNCS if u not in INEXACT]), st.just("ufunc"), st.sampled_from([-1, 1]), st.just(False)).map(list)
    arg = st.tuples(st.just("arg"), st.sampled_from(["argmax", "argmin"]), st.sampled_from(["method", "np"]), st.sampled_from([-1, 1]), st.just(False)).map(list)
    return {"a": a, "ops": draw(st.lists(st.one_of(named, named, uf, arg), min_size=2, max_size=5)), "lz": draw(st.sampled_from(LAZY_CHOICES))}


SUBCHECKS = [
    SubCheck("reduction-sequence", body_sequence, sequence_case, quick=4000, thorough=300000, shards_quick=3,
             doc="2-5 reductions of different kinds / spellings / axis / keepdims on one array object, each against numpy per row"),
    SubCheck("row-mean-full-range-ints", body_mean_wide, mean_wide_case, quick=3000, thorough=200000, shards_quick=2,
             doc="mean(axis=-1) of full-range int64 / uint64 / int32 rows against the exact rational mean (float64 summation bound)"),
    SubCheck("named", body_named, named_case, quick=12000, thorough=1200000, shards_quick=6,
             doc="sum/prod/any/all (all shapes) and max/min/mean (non-empty rows) via method, np.<name>, ufunc.reduce; keepdims"),
    SubCheck("ufunc-reduce", body_ufunc, ufunc_case, quick=8000, thorough=800000, shards_quick=4,
             doc="reduce of each of the 12 numpy binary ufuncs that have an identity; identity for empty rows; numpy's refusals"),
    SubCheck("argmax-argmin", body_arg, arg_case, quick=6000, thorough=500000, shards_quick=3,
             doc="argmax/argmin per non-empty row (first occurrence, NaN as numpy)"),
    SubCheck("float-sum-reordering-bound", body_float_sum, float_sum_case, quick=1500, thorough=60000, shards_quick=3,
             doc="sum / mean of arbitrary finite float32/float64 rows up to 300 elements (pairwise-summation boundary at 128) within the re-ordering error bound"),
    SubCheck("axis-none", body_axis_none, axis_none_case, quick=4000, thorough=300000, shards_quick=2,
             doc="reductions with no axis equal numpy on the concatenation"),
]
