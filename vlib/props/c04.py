"""C04  Element-wise numpy ufuncs act row by row, with column broadcasting."""
import operator

import numpy as np
from hypothesis import strategies as st

from .. import gen
from ..core import SubCheck, Violation
from ..oracle import (LAZY_CHOICES, lib, np_rows, np_flat, lazy_ra, mk_rows, expect_ragged, expect_refused, expect_unchanged,
                      jsonable, arrays_equal)

RULE = ("Cases = (row-length vector, ufunc, first-operand dtype, second operand kind in {RaggedArray of equal lengths "
        "(fresh or pending view), Python int/float/bool, numpy scalar of a pool dtype incl. np.bool_, 0-d array, "
        "(n_rows,1) column}, side, spelling ufunc/operator).  Oracle = the same numpy ufunc on the flat buffers with "
        "the column expanded by np.repeat and the scalar passed unchanged: values, result dtype and numpy's own "
        "refusals (TypeError / OverflowError / ValueError) must match; row lengths equal the operand's; operands "
        "unmodified.  Non-trivial = the shape has an empty row or no rows, or the dtypes differ, or the operand is a "
        "column vector or on the left."
        "  Element types incl. uint16/32/64; ragged operands whose cells coincide with the other operand's or differ by one; float columns of zeros of both signs; the different-lengths refusal with operands from all 12 source kinds.")
ASSUMPTIONS = ["float16, complex, out=/where= kwargs and ufuncs with nout > 1 are not explored",
               "float power results are compared within 4 ulp (SIMD and scalar loops may round differently); "
               "everything else exactly (NaN == NaN)"]

BINARY = {
    "add": "+", "subtract": "-", "multiply": "*", "true_divide": "/", "floor_divide": "//", "remainder": "%",
    "power": "**", "maximum": None, "minimum": None,
    "equal": "==", "not_equal": "!=", "less": "<", "less_equal": "<=", "greater": ">", "greater_equal": ">=",
    "bitwise_and": "&", "bitwise_or": "|", "bitwise_xor": "^", "left_shift": "<<", "right_shift": ">>",
    "logical_and": None, "logical_or": None, "logical_xor": None,
    "fmax": None, "fmin": None, "hypot": None, "copysign": None, "gcd": None,
}
UNARY = {"negative": "neg", "positive": "pos", "absolute": "abs", "invert": "invert", "logical_not": None,
         "sign": None, "square": None, "sqrt": None, "floor": None, "ceil": None, "isnan": None, "isfinite": None,
         "signbit": None, "rint": None, "trunc": None}
PYOP = {"+": operator.add, "-": operator.sub, "*": operator.mul, "/": operator.truediv, "//": operator.floordiv,
        "%": operator.mod, "**": operator.pow, "==": operator.eq, "!=": operator.ne, "<": operator.lt,
        "<=": operator.le, ">": operator.gt, ">=": operator.ge, "&": operator.and_, "|": operator.or_,
        "^": operator.xor, "<<": operator.lshift, ">>": operator.rshift,
        "neg": operator.neg, "pos": operator.pos, "abs": abs, "invert": operator.invert}
INEXACT = {"power", "hypot"}


def close_enough(got, exp, name):
    got = np.asarray(got)
    exp = np.asarray(exp)
    if got.shape != exp.shape:
        return False
    if name in INEXACT and exp.dtype.kind == "f" and got.dtype == exp.dtype:
        with np.errstate(all="ignore"):
            fin = np.isfinite(exp) & np.isfinite(got)
            if not arrays_equal(np.where(fin, 0, got), np.where(fin, 0, exp)):
                return False
            tol = 4 * np.finfo(exp.dtype).eps * np.abs(exp[fin])
            return bool(np.all(np.abs(got[fin] - exp[fin]) <= tol))
    return arrays_equal(got, exp)


def scalar_obj(s):
    """['py', v] | ['np', dtype, v] | ['0d', dtype, v]"""
    if s[0] == "py":
        return s[1]
    if s[0] == "np":
        return np.dtype(s[1]).type(s[2])
    return np.array(s[2], dtype=s[1])


def split(flat, lens):
    out, c = [], 0
    for l in lens:
        out.append(flat[c:c + l])
        c += l
    return out


def apply(name, spell, x, y=None):
    uf = getattr(np, name)
    if y is None:
        if spell == "operator":
            return PYOP[UNARY[name]](x)
        return uf(x)
    if spell == "operator":
        return PYOP[BINARY[name]](x, y)
    return uf(x, y)


def body(case, ctx):
    a, name, kind, side, spell = case["a"], case["op"], case["kind"], case["side"], case["spell"]
    lens = a["lens"]
    n = len(lens)
    flat_a = np_flat(a)
    ra = lazy_ra(np_rows(a), a["dt"], case["la"])
    ctx.label(*gen.shape_labels(lens), "op:" + name, "kind:" + kind, "side:" + side, "spell:" + spell, "dt:" + a["dt"],
              "a-lazy" if case["la"] else "a-fresh")
    nt = (0 in lens) or n == 0
    other_flat = other_obj = None
    b_rows = None
    if kind == "unary":
        pass
    elif kind == "ragged":
        b = {"lens": lens, "dt": case["b"]["dt"], "vals": case["b"]["vals"]}
        other_flat = np_flat(b)
        b_rows = np_rows(b)
        other_obj = lazy_ra(b_rows, b["dt"], case["lb"])
        ctx.label("b-lazy" if case["lb"] else "b-fresh")
        nt = nt or b["dt"] != a["dt"]
    elif kind == "scalar":
        other_obj = scalar_obj(case["b"])
        other_flat = scalar_obj(case["b"])
        ctx.label("scalar:" + case["b"][0] + (":" + type(case["b"][1]).__name__ if case["b"][0] == "py" else ":" + case["b"][1]))
        nt = nt or side == "left" or case["b"][0] != "py"
    elif kind == "column":
        col = np.array(case["b"]["vals"], dtype=case["b"]["dt"]).reshape(n, 1)
        other_obj = col
        if case.get("col_as_list") and n >= 1 and case["b"]["dt"] in ("int64", "float64", "bool"):
            other_obj = col.tolist()          # a nested list [[v], [w], ...] is converted by the library itself
            ctx.label("column:list")
        other_flat = np.repeat(col.ravel(), lens)
        nt = True
    else:
        raise ValueError(kind)
    ctx.nt(nt)
    # ---- oracle: numpy on the flat operands
    with np.errstate(all="ignore"):
        if kind == "unary":
            exp = lib(apply, name, "ufunc", flat_a)
        elif side == "right":
            exp = lib(apply, name, "ufunc", flat_a, other_flat)
        else:
            exp = lib(apply, name, "ufunc", other_flat, flat_a)
        col_before = (other_obj.copy() if isinstance(other_obj, np.ndarray) else None) if kind == "column" else None
        # ---- library
        if kind == "unary":
            got = lib(apply, name, spell, ra)
        elif side == "right":
            got = lib(apply, name, spell, ra, other_obj)
        else:
            got = lib(apply, name, spell, other_obj, ra)
    info = dict(op=name, side=side)
    if not exp.ok:
        ctx.label("numpy-refuses:" + type(exp.exc).__name__)
        expect_refused(got, "ufunc", numpy_raises=repr(exp.exc)[:200], **info)
    else:
        expv = np.asarray(exp.value)
        if expv.shape != flat_a.shape:
            raise AssertionError("oracle shape")  # harness error
        from npstructures import RaggedArray
        if not got.ok:
            raise Violation("ufunc:unexpected-refusal", got=got.brief(), expected=jsonable(expv), **info)
        if not isinstance(got.value, RaggedArray):
            raise Violation("ufunc:result-kind", got=got.brief(), **info)
        res = got.value
        r = lib(lambda: (np.asarray(res.ravel()), [int(x) for x in res.lengths], len(res)))
        if not r.ok:
            raise Violation("ufunc:result-unreadable", got=r.brief(), **info)
        gflat, glens, gn = r.value
        if glens != list(lens) or gn != n:
            raise Violation("ufunc:row-lengths", expected=lens, got=glens, **info)
        if not close_enough(gflat, expv, name):
            raise Violation("ufunc:values", expected=jsonable(split(expv, lens)), got=jsonable(split(gflat, lens)), **info)
        if (expv.size or n) and gflat.dtype != expv.dtype:
            raise Violation("ufunc:dtype", expected=str(expv.dtype), got=str(gflat.dtype), **info)
        rows_it = lib(lambda: [np.asarray(x) for x in res])
        if not rows_it.ok or not all(close_enough(g, e, name) for g, e in zip(rows_it.value, split(expv, lens))) or len(rows_it.value) != n:
            raise Violation("ufunc:rows-by-iteration", got=rows_it.brief(), **info)
    # ---- operands are not modified
    expect_unchanged(ra, np_rows(a), a["dt"], "ufunc-operand-a")
    if kind == "ragged":
        expect_unchanged(other_obj, b_rows, case["b"]["dt"], "ufunc-operand-b")
    if kind == "column" and col_before is not None and not arrays_equal(other_obj, col_before):
        raise Violation("ufunc:column-modified")


PY_SCALARS = [0, 1, 2, -1, 3, 7, 255, 256, 300, -129, 128, 2**31, 2**40, -2**40, True, False, 0.5, -1.5, 2.0, 0.0,
              float("nan"), float("inf"), 1e10]


def scalar_st():
    py = st.sampled_from(PY_SCALARS).map(lambda v: ["py", v])
    nps = st.sampled_from(gen.C04_DT).flatmap(lambda dt: st.tuples(st.sampled_from(["np", "0d"]), st.just(dt), gen.elem(dt)).map(list))
    return st.one_of(py, py, nps)


_SC = None


@st.composite
def ufunc_case(draw, tier, kinds=("unary", "ragged", "scalar", "column")):
    global _SC
    if _SC is None:
        _SC = scalar_st()
    a = draw(gen.ragged(tier, dts=gen.C04_DT, wide=True))
    lens = a["lens"]
    kind = draw(st.sampled_from(kinds))
    case = {"a": a, "kind": kind, "la": draw(st.sampled_from(LAZY_CHOICES)), "lb": 0, "b": None, "side": "right"}
    if kind == "unary":
        name = draw(st.sampled_from(sorted(UNARY)))
        opname = UNARY[name]
    else:
        name = draw(st.sampled_from(sorted(BINARY)))
        opname = BINARY[name]
        case["side"] = draw(st.sampled_from(["left", "right"]))
        if kind == "ragged":
            dt = draw(st.sampled_from(gen.C04_DT))
            case["b"] = {"dt": dt, "vals": draw(gen.flat_values(dt, sum(lens), wide=True))}
            if draw(st.integers(0, 4)) == 0 and a["dt"] != "bool":
                case["b"]["vals"] = gen.near_values(draw, a["vals"], dt)     # b's cells coincide with a's or differ by one
            case["lb"] = draw(st.sampled_from(LAZY_CHOICES))
        elif kind == "scalar":
            case["b"] = draw(_SC)
        else:
            dt = draw(st.sampled_from(gen.C04_DT))
            case["b"] = {"dt": dt, "vals": draw(gen.flat_values(dt, len(lens), wide=True))}
            case["col_as_list"] = draw(st.sampled_from([False, False, False, True]))
    case["op"] = name
    case["spell"] = draw(st.sampled_from(["ufunc", "operator"])) if opname else "ufunc"
    return case


# ---------------------------------------------------------------- refusal: different row lengths

def body_mismatch(case, ctx):
    la, lb, name = case["la"], case["lb"], case["op"]
    ctx.label("same-rowcount" if len(la) == len(lb) else "different-rowcount",
              "same-total" if sum(la) == sum(lb) else "different-total",
              "zero-rows-involved" if 0 in (len(la), len(lb)) else "both-nonzero")
    ctx.nt()
    x = lazy_ra(mk_rows(la, list(range(sum(la)))), "int64", case["za"])
    y = lazy_ra(mk_rows(lb, list(range(sum(lb)))), "int64", case["zb"])
    got = lib(apply, name, case["spell"], x, y)
    expect_refused(got, "ufunc-different-lengths", a=la, b=lb, op=name)
    expect_unchanged(x, mk_rows(la, list(range(sum(la)))), "int64", "ufunc-operand-a")
    expect_unchanged(y, mk_rows(lb, list(range(sum(lb)))), "int64", "ufunc-operand-b")


@st.composite
def mismatch_case(draw, tier):
    la = draw(gen.lengths(tier))
    mode = draw(st.integers(0, 3))
    lb = None
    if mode == 0 and len(la) >= 2 and len(set(la)) > 1:
        lb = draw(st.permutations(la))
    elif mode == 1 and sum(la) >= 1 and len(la) >= 1:
        # same total, same row count, one cell moved
        i = draw(st.integers(0, len(la) - 1))
        j = draw(st.integers(0, len(la) - 1))
        lb = list(la)
        if lb[i] > 0 and i != j:
            lb[i] -= 1
            lb[j] += 1
    elif mode == 2:
        lb = la + [draw(st.integers(0, 2))]
    if lb is None or lb == la:
        lb = draw(gen.lengths(tier))
    if lb == la:
        lb = la + [0]
    if draw(st.booleans()):
        la, lb = lb, la
    name = draw(st.sampled_from(["add", "multiply", "less", "bitwise_and", "maximum", "subtract"]))
    return {"la": la, "lb": lb, "op": name, "spell": draw(st.sampled_from(["ufunc", "operator"])) if BINARY[name] else "ufunc",
            "za": draw(st.sampled_from(LAZY_CHOICES)), "zb": draw(st.sampled_from(LAZY_CHOICES))}


def mk(kinds):
    return lambda tier: ufunc_case(tier, kinds=kinds)


SUBCHECKS = [
    SubCheck("unary", body, mk(("unary",)), quick=5000, thorough=400000, shards_quick=3,
             doc="unary ufuncs / operators on every dtype and shape"),
    SubCheck("ragged-ragged", body, mk(("ragged",)), quick=8000, thorough=800000, shards_quick=4,
             doc="binary ufuncs of two RaggedArrays with identical lengths, all dtype pairs, fresh or pending operands"),
    SubCheck("scalar", body, mk(("scalar",)), quick=8000, thorough=800000, shards_quick=4,
             doc="binary ufuncs with Python / numpy / 0-d scalars on either side (NEP 50 result dtype, numpy's own refusals)"),
    SubCheck("column", body, mk(("column",)), quick=8000, thorough=800000, shards_quick=4,
             doc="(n_rows,1) column vector on either side, all dtype pairs, empty rows anywhere"),
    SubCheck("different-lengths-refused", body_mismatch, mismatch_case, quick=3000, thorough=200000, shards_quick=1,
             doc="two RaggedArrays with different length vectors (permuted, one cell moved, extra row, zero rows) must be refused"),
]
