"""Shared pieces for the run-length properties C14-C17: generators, dense decoding, canonical-form predicate."""
import functools

import numpy as np
from hypothesis import strategies as st

from . import gen
from .core import Violation
from .oracle import lib, jsonable, arrays_equal

RL_DT = ["bool"] + gen.INT_DT + ["float16", "float32", "float64"]
_cache = functools.lru_cache(maxsize=None)


@_cache
def rl_elem(dt, specials=True):
    if dt == "float16":
        base = st.integers(-64, 64).map(lambda k: k / 4.0)
        if specials:
            return st.one_of(base, st.sampled_from([0.0, -0.0, float("inf"), float("-inf"), float("nan")]))
        return base
    if dt in ("float32", "float64") and specials:
        # besides small dyadic values and the specials: pairs of distinct values closer than any sensible tolerance
        near = [1.0, 1.0 + 2.0**-20, 0.0, 1e-9, 1e5, 100001.0, -3.0, -3.0 - 2.0**-20] if dt == "float32" else [1.0, 1.0 + 1e-9, 0.0, 1e-9, 1e5, 100000.00001, -3.0, -3.000000001]
        return st.one_of(gen.elem(dt, specials=specials), gen.elem(dt, specials=specials), st.sampled_from(near))
    return gen.elem(dt, specials=specials)


@_cache
def runs(dt, tier, specials=True, min_len=1, max_runs=None):
    """list of [value, run_length]; adjacent runs may carry equal values (they merge when encoded)"""
    e = rl_elem(dt, specials)
    long_ = 40 if tier == "thorough" else 12
    mr = max_runs or (14 if tier == "thorough" else 8)
    rl = st.one_of(st.integers(1, 3), st.integers(1, 3), st.integers(1, long_))
    run = st.tuples(e, rl).map(list)
    pool2 = st.tuples(e, e)
    alts = [
        st.lists(run, min_size=1, max_size=mr),                                                    # general
        st.tuples(e, st.integers(max(1, min_len), long_)).map(lambda t: [[t[0], t[1]]]),           # all equal
        st.lists(e, min_size=1, max_size=mr).map(lambda vs: [[v, 1] for v in vs]),                 # all different / single element
        st.tuples(pool2, st.integers(2, mr)).map(lambda t: [[t[0][i % 2], 1] for i in range(t[1])]),   # alternating
        st.tuples(pool2, st.lists(rl, min_size=1, max_size=mr)).map(lambda t: [[t[0][i % 2], l] for i, l in enumerate(t[1])]),  # two values, long runs
    ]
    if min_len == 0:
        alts.append(st.just([]))
    return st.one_of(*alts)


def dense(dt, rs):
    vals = [v for v, l in rs for _ in range(l)]
    return np.array(vals, dtype=dt) if vals else np.zeros(0, dtype=dt)


def run_structure(a):
    """starts of the maximal runs of `a` under != (NaN starts a new run each time)"""
    if len(a) == 0:
        return []
    with np.errstate(all="ignore"):
        ch = np.flatnonzero(a[1:] != a[:-1]) + 1
    return [0] + ch.tolist()


def n_runs(a):
    return len(run_structure(a))


def scribble(arr):
    """overwrite a caller-owned array with different content (what a caller may do with its own array afterwards)"""
    if isinstance(arr, np.ndarray) and arr.size and arr.flags.writeable:
        with np.errstate(all="ignore"):
            arr[...] = 1 if not arr.astype(bool).any() else 0


def encode(a):
    """RunLengthArray.from_array of a private copy of `a`; the copy is overwritten right afterwards: an encoded array is a
    value of its own and must not follow later writes to the array it was made from"""
    from npstructures import RunLengthArray
    src = np.array(a, copy=True)
    x = RunLengthArray.from_array(src)
    scribble(src)
    return x


def decode(x):
    """dense array of a RunLengthArray (public API only).  The array to_array() hands out is the caller's: a copy is
    returned and the original overwritten, so that a later decoding cannot be a window onto an earlier one."""
    arr = np.asarray(x.to_array())
    out = arr.copy()
    scribble(arr)
    return out


def check_canonical(x, exp_len, strict, what, **info):
    """Validity predicate on a RunLengthArray the library returned: boundaries start at 0, strictly increase, end at
    exp_len (no empty run), one value per run; strict additionally: no two adjacent runs with == values."""
    from npstructures import RunLengthArray
    if not isinstance(x, RunLengthArray):
        raise Violation(what + ":canonical:not-a-RunLengthArray", got=repr(type(x)), **info)
    r = lib(lambda: (np.asarray(x.starts), np.asarray(x.ends), np.asarray(x.values)))
    if not r.ok:
        raise Violation(what + ":canonical:unreadable", got=r.brief(), **info)
    s, e, v = r.value
    bad = None
    if not (len(s) == len(e) == len(v)):
        bad = "starts/ends/values differ in length"
    elif exp_len == 0:
        if len(s) != 0:
            bad = "zero-length array with runs"
    elif len(s) == 0:
        bad = "no runs for a non-empty array"
    elif s[0] != 0:
        bad = "first boundary is not 0"
    elif e[-1] != exp_len:
        bad = f"last boundary {int(e[-1])} is not the length {exp_len}"
    elif np.any(e <= s):
        bad = "empty or negative run"
    elif np.any(s[1:] != e[:-1]):
        bad = "runs are not contiguous"
    elif strict and len(v) > 1:
        with np.errstate(all="ignore"):
            if np.any(v[1:] == v[:-1]):
                bad = "two adjacent runs with equal values"
    if bad:
        raise Violation(what + ":canonical", problem=bad, starts=jsonable(s), ends=jsonable(e), values=jsonable(v), **info)


def expect_rl(out, exp, what, strict=False, check_dtype=True, **info):
    """guarded call must have returned a RunLengthArray decoding to exp (values, length, dtype) in canonical form"""
    from npstructures import RunLengthArray
    exp = np.asarray(exp)
    if not out.ok:
        raise Violation(what + ":unexpected-refusal", got=out.brief(), expected=jsonable(exp), **info)
    x = out.value
    if not isinstance(x, RunLengthArray):
        raise Violation(what + ":result-kind", expected="RunLengthArray", got=out.brief(), **info)
    d = lib(lambda: (decode(x), len(x)))
    if not d.ok:
        raise Violation(what + ":undecodable", got=d.brief(), **info)
    arr, n = d.value
    if n != len(exp) or arr.shape != exp.shape or not arrays_equal(arr, exp):
        raise Violation(what + ":values", expected=jsonable(exp), got=jsonable(arr), length=int(n), **info)
    if check_dtype and exp.size and arr.dtype != exp.dtype:
        raise Violation(what + ":dtype", expected=str(exp.dtype), got=str(arr.dtype), **info)
    # the object's own metadata and np.asarray agree with what it decodes to
    meta = lib(lambda: (int(x.size), tuple(int(t) for t in x.shape), np.dtype(x.dtype), np.asarray(x)))
    if not meta.ok:
        raise Violation(what + ":metadata-unreadable", got=meta.brief(), **info)
    size, shape, dt, dense = meta.value
    if size != len(exp) or shape != (len(exp),) or (check_dtype and exp.size and dt != exp.dtype):
        raise Violation(what + ":metadata", expected=[len(exp), [len(exp)], str(exp.dtype)], got=[size, list(shape), str(dt)], **info)
    if dense.shape != exp.shape or not arrays_equal(dense, exp):
        raise Violation(what + ":asarray", expected=jsonable(exp), got=jsonable(dense), **info)
    check_canonical(x, len(exp), strict, what, **info)
