"""List-of-rows reference model and comparison rules (DESIGN.md section 4)."""
import math

import numpy as np

from .core import Violation, jsonable

REFUSED = "refused"


class Out:
    """Outcome of a guarded library call."""
    __slots__ = ("ok", "value", "exc")

    def __init__(self, ok, value=None, exc=None):
        self.ok = ok
        self.value = value
        self.exc = exc

    def __repr__(self):
        return f"Out(ok={self.ok}, value={self.value!r}, exc={self.exc!r})"

    def brief(self):
        if self.ok:
            return {"returned": jsonable(describe(self.value))}
        return {"raised": f"{type(self.exc).__name__}: {str(self.exc)[:200]}"}


RECORDER = None   # C19 sets this to a list: every guarded call's outcome is then recorded as comparable data


def lib_uninitialised(f, *a, **k):
    """lib() for calls whose returned *content* is unspecified (np.empty_like): only kind, lengths and dtype are recorded"""
    return lib(f, *a, _strip_values=True, **k)


def _strip(v):
    if isinstance(v, dict):
        return {k: _strip(x) for k, x in v.items() if k not in ("rows", "v")}
    if isinstance(v, list):
        return [_strip(x) for x in v]
    return v


class HarnessBug(BaseException):
    """a programming error on the harness side of a guarded call (must never pass for a refusal)"""


_VERIF_DIR = __file__.rsplit("/vlib/", 1)[0] + "/"


def _raised_in_harness(e):
    tb = e.__traceback__
    last = None
    while tb is not None:
        last = tb
        tb = tb.tb_next
    return last is not None and last.tb_frame.f_code.co_filename.startswith(_VERIF_DIR)


def lib(f, *a, _strip_values=False, **k):
    """Run a library call; 'refused' = raised any Exception."""
    try:
        out = Out(True, f(*a, **k))
    except Violation:                  # a verdict reached inside a guarded helper of ours is not a refusal by the library
        raise
    except (NameError, UnboundLocalError, ImportError) as e:
        if _raised_in_harness(e):      # a typo in a lambda of ours is a harness error (exit 2), not a refusal
            raise HarnessBug(repr(e)) from e
        out = Out(False, exc=e)
    except Exception as e:  # noqa: BLE001 - the property says 'refused with an error'
        out = Out(False, exc=e)
    if RECORDER is not None:
        if out.ok:
            try:
                RECORDER.append(["ok", _strip(norm(out.value)) if _strip_values else norm(out.value)])
            except Exception as e:  # noqa: BLE001 - a result that cannot be read back
                RECORDER.append(["unreadable", type(e).__name__])
        else:
            RECORDER.append(["refused"])
    return out


def lib_twice(f, *a, **k):
    """lib(f) twice: the ndarray(s) the first call returned are the caller's and are overwritten before the second call,
    whose outcome is returned.  A result that is a writable window onto something the library keeps (a cache, an operand)
    shows up as a wrong second result or a changed operand."""
    first = lib(f, *a, **k)
    if first.ok:
        from npstructures import RaggedArray
        vals = first.value if isinstance(first.value, (tuple, list)) else [first.value]
        for v in vals:
            if isinstance(v, RaggedArray):
                fl = lib(lambda: v.ravel())
                v = fl.value if fl.ok else None
            if isinstance(v, np.ndarray) and v.size and v.flags.writeable and v.dtype != object:
                with np.errstate(all="ignore"):
                    v[...] = 1 if not v.astype(bool).any() else 0
    second = lib(f, *a, **k)
    if first.ok != second.ok:
        raise Violation("same-call-twice:outcome-kind-differs", first=first.brief(), second=second.brief())
    return second


def describe(v):
    from npstructures import RaggedArray
    if isinstance(v, RaggedArray):
        try:
            return {"RaggedArray": v.tolist(), "dtype": str(v.dtype)}
        except Exception as e:  # noqa: BLE001
            return {"RaggedArray-unreadable": repr(e)}
    if isinstance(v, tuple):
        return [describe(x) for x in v]
    return jsonable(v)


# ---------------------------------------------------------------- building

def mk_rows(lens, flat):
    rows, c = [], 0
    for l in lens:
        rows.append(list(flat[c:c + l]))
        c += l
    return rows


def poscoded(lens):
    return [[1000 * i + j for j in range(l)] for i, l in enumerate(lens)]


def np_rows(case):
    """list of numpy rows of a {'lens','dt','vals'} case"""
    flat = np.array(case["vals"], dtype=case["dt"]) if len(case["vals"]) else np.zeros(0, dtype=case["dt"])
    out, c = [], 0
    for l in case["lens"]:
        out.append(flat[c:c + l].copy())
        c += l
    return out


def np_flat(case):
    return np.array(case["vals"], dtype=case["dt"]) if len(case["vals"]) else np.zeros(0, dtype=case["dt"])


def buffer_layout(flat, salt=0):
    """the same 1-D buffer (same values, same dtype), now and then as a non-contiguous view: every second cell of a larger
    buffer or a negative-stride view.  Which one is a pure function of the buffer's size and `salt` (replayable)."""
    k = (flat.size + salt) % 7
    if k == 3 and flat.size:
        big = np.zeros(2 * flat.size + 1, dtype=flat.dtype)
        big[1::2] = flat
        return big[1::2]
    if k == 5 and flat.size:
        return np.ascontiguousarray(flat[::-1])[::-1]
    return flat


def build_ra(flat, lens):
    """RaggedArray(flat buffer, row lengths).  Every third shape or so hands the lengths over as an int64 ndarray and
    overwrites that ndarray right after construction: the lengths vector stays the caller's, the array must not follow it."""
    from npstructures import RaggedArray
    lens = [int(l) for l in lens]
    if (len(lens) + sum(lens)) % 3 == 1 and lens:
        arr = np.array(lens, dtype=np.int64)
        ra = RaggedArray(flat, arr)
        arr[:] = arr[::-1] + 3
        return ra
    return RaggedArray(flat, lens)


def mk_ra(case):
    return build_ra(buffer_layout(np_flat(case), len(case["lens"])), case["lens"])


def ra_from_rows(rows, dtype="int64"):
    from npstructures import RaggedArray
    flat = np.array([x for r in rows for x in r], dtype=dtype)
    return RaggedArray(flat, [len(r) for r in rows])


# ---------------------------------------------------------------- selectors

def py_sel(sel):
    """JSON selector -> object to hand to the library."""
    if sel is None:
        return None
    k = sel[0]
    if k == "i":
        if sel[2] == 2:
            return np.array(sel[1])          # a 0-d integer array
        return np.int64(sel[1]) if sel[2] else int(sel[1])
    if k == "s":
        return slice(sel[1], sel[2], sel[3])
    if k == "l":
        if sel[2] == "list":
            return list(sel[1])
        return np.array(sel[1], dtype=sel[2])
    if k == "m":
        return np.array(sel[1], dtype=bool) if sel[2] else list(sel[1])
    if k == "e":
        return Ellipsis
    raise ValueError(sel)


def sel_kind(sel):
    return "none" if sel is None else {"i": "int", "s": "slice", "l": "list", "m": "mask", "e": "ellipsis"}[sel[0]]


def model_index(rows, rsel, csel=None):
    """('rows', [[..]]) | ('row', [..]) | ('cells', [..]) | ('cell', v) | ('refuse',)"""
    n = len(rows)
    k = rsel[0]
    single = False
    if k == "e":
        sel = list(rows)
    elif k == "i":
        i = rsel[1]
        if not -n <= i < n:
            return ("refuse",)
        sel = rows[i]
        single = True
    elif k == "s":
        sel = rows[slice(rsel[1], rsel[2], rsel[3])]
    elif k == "m":
        assert len(rsel[1]) == n
        sel = [r for r, m in zip(rows, rsel[1]) if m]
    elif k == "l":
        if any(not -n <= i < n for i in rsel[1]):
            return ("refuse",)
        sel = [rows[i] for i in rsel[1]]
    else:
        raise ValueError(rsel)
    if csel is None or csel[0] == "e":
        return ("row", list(sel)) if single else ("rows", [list(r) for r in sel])
    if csel[0] == "i":
        j = csel[1]
        if single:
            if not -len(sel) <= j < len(sel):
                return ("refuse",)
            return ("cell", sel[j])
        out = []
        for r in sel:
            if not -len(r) <= j < len(r):
                return ("refuse",)
            out.append(r[j])
        return ("cells", out)
    sl = slice(csel[1], csel[2], csel[3])
    if single:
        return ("row", list(sel[sl]))
    return ("rows", [list(r[sl]) for r in sel])


def selected_rows(rows, rsel):
    m = model_index(rows, rsel, None)
    if m[0] == "refuse":
        return None
    return [m[1]] if m[0] == "row" else m[1]


# ---------------------------------------------------------------- comparison

def same_scalar(a, b):
    """exact equality with NaN == NaN (and 0.0 == -0.0)"""
    if isinstance(a, float) and isinstance(b, float) and math.isnan(a) and math.isnan(b):
        return True
    try:
        return bool(a == b)
    except Exception:  # noqa: BLE001
        return False


def arrays_equal(a, b):
    a = np.asarray(a)
    b = np.asarray(b)
    if a.shape != b.shape:
        return False
    if a.size == 0:
        return True
    if a.dtype.kind in "fc" or b.dtype.kind in "fc":
        try:
            return bool(np.array_equal(a, b, equal_nan=True))
        except TypeError:
            return bool(np.array_equal(a, b))
    return bool(np.array_equal(a, b))


def rows_equal(got_rows, exp_rows):
    if len(got_rows) != len(exp_rows):
        return False
    for g, e in zip(got_rows, exp_rows):
        if not arrays_equal(np.asarray(g), np.asarray(e)):
            return False
    return True


import os as _os
_EMPTY_DTYPE_EXPERIMENT = _os.environ.get("VERIF_EMPTY_DTYPE") == "1"      # development aid: list the places where empty results lose their dtype


def expect_ragged(out, exp_rows, what, exp_dtype=None, empty_dtype=False, **info):
    """The guarded call must have returned a RaggedArray with exactly these rows and this dtype (the dtype of a result
    with no rows at all is not asserted: the library builds those as float64, which the pinned tree does too)."""
    from npstructures import RaggedArray
    if not out.ok:
        raise Violation(what + ":unexpected-refusal", expected=jsonable([np.asarray(r).tolist() for r in exp_rows]), got=out.brief(), **info)
    v = out.value
    if not isinstance(v, RaggedArray):
        raise Violation(what + ":result-kind", expected="RaggedArray", got=out.brief(), **info)
    r = lib(lambda: [np.asarray(x) for x in v])
    if not r.ok:
        raise Violation(what + ":result-unreadable", got=r.brief(), **info)
    rows = r.value
    lens = lib(lambda: [int(x) for x in v.lengths])
    n = lib(lambda: len(v))
    exp_lens = [len(e) for e in exp_rows]
    if not (lens.ok and n.ok and lens.value == exp_lens and n.value == len(exp_rows)):
        raise Violation(what + ":row-lengths", expected=exp_lens, got=lens.brief(), n=n.brief(), rows=jsonable([x.tolist() for x in rows]), **info)
    if not rows_equal(rows, exp_rows):
        raise Violation(what + ":values", expected=jsonable([np.asarray(e).tolist() for e in exp_rows]),
                        got=jsonable([x.tolist() for x in rows]), **info)
    if exp_dtype is not None and (sum(exp_lens) > 0 or len(exp_lens) > 0 or empty_dtype or _EMPTY_DTYPE_EXPERIMENT) and np.dtype(v.dtype) != np.dtype(exp_dtype):
        raise Violation(what + ":dtype", expected=str(np.dtype(exp_dtype)), got=str(v.dtype), **info)
    # the other ways of reading the same result agree with its iteration: size, shape, flat view, tolist
    sec = lib(lambda: (int(v.size), v.shape[0], [int(x) for x in v.shape[1]] if len(v.shape) > 1 and not isinstance(v.shape[1], (int, np.integer)) else None,
                       np.asarray(v.ravel()), v.tolist()))
    if not sec.ok:
        raise Violation(what + ":result-unreadable", how="size / shape / ravel / tolist", got=sec.brief(), **info)
    size, n0, shape1, flat, tl = sec.value
    flat_exp = [x for r in rows for x in r.tolist()]
    if size != sum(exp_lens) or n0 != len(exp_rows) or (shape1 is not None and shape1 != exp_lens):
        raise Violation(what + ":size-or-shape", expected=[sum(exp_lens), len(exp_rows), exp_lens], got=[size, n0, shape1], **info)
    if flat.shape != (sum(exp_lens),) or not rows_equal([flat], [np.concatenate([np.zeros(0, dtype=flat.dtype)] + list(rows))]):
        raise Violation(what + ":flat-view", expected=jsonable(flat_exp), got=jsonable(flat), **info)
    if len(tl) != len(rows) or not rows_equal([np.asarray(t, dtype=r.dtype) for t, r in zip(tl, rows)], rows):
        raise Violation(what + ":tolist", expected=jsonable([r.tolist() for r in rows]), got=jsonable(tl), **info)


def expect_array(out, exp, what, check_dtype=True, empty_dtype=False, **info):
    """1-D/N-D ndarray result."""
    from npstructures import RaggedArray
    exp = np.asarray(exp)
    if not out.ok:
        raise Violation(what + ":unexpected-refusal", expected=jsonable(exp), got=out.brief(), **info)
    v = out.value
    if isinstance(v, RaggedArray) or not isinstance(v, (np.ndarray, np.generic)):
        raise Violation(what + ":result-kind", expected="ndarray", got=out.brief(), **info)
    v = np.asarray(v)
    if v.shape != exp.shape:
        raise Violation(what + ":shape", expected=jsonable(exp), got=jsonable(v), **info)
    if not arrays_equal(v, exp):
        raise Violation(what + ":values", expected=jsonable(exp), got=jsonable(v), **info)
    if check_dtype and v.dtype != exp.dtype:
        raise Violation(what + ":dtype", expected=str(exp.dtype), got=str(v.dtype), **info)


def expect_refused(out, what, **info):
    if out.ok:
        raise Violation(what + ":accepted-instead-of-refused", got=out.brief(), **info)


def snapshot(ra):
    """(rows as lists, dtype str) read through the public API"""
    return [np.asarray(r).tolist() for r in ra], str(ra.dtype), [int(x) for x in ra.lengths]


def expect_unchanged(ra, rows, dtype, what, **info):
    r = lib(lambda: snapshot(ra))
    exp = [np.asarray(x).tolist() for x in rows]
    if not r.ok:
        raise Violation(what + ":operand-unreadable-after", got=r.brief(), **info)
    got_rows, got_dt, got_lens = r.value
    if got_lens != [len(x) for x in exp] or not rows_equal(got_rows, exp) or (sum(got_lens) and got_dt != str(np.dtype(dtype))):
        raise Violation(what + ":operand-modified", expected=jsonable(exp), got=jsonable(got_rows), dtype=got_dt, **info)


# ---------------------------------------------------------------- lazy operands

LAZY_MODES = 13
LAZY_CHOICES = [0, 0, 0, 0, 1, 2, 3, 4, 5, 6, 7, 8, 9, 10, 11, 12]     # what sub-checks draw the operand mode from


def lazy_ra(rows, dtype, mode):
    """A RaggedArray with exactly these rows.  mode 0: freshly built.  Other modes: a *pending
    selection* (never materialised) over a larger / permuted / column-padded parent, which is
    what exposes a missing materialisation inside an operation."""
    from npstructures import RaggedArray
    rows = [np.asarray(r, dtype=dtype) for r in rows]
    n = len(rows)
    dt = np.dtype(dtype)
    junk = np.array([1], dtype=dt) if dt.kind != "b" else np.array([True])

    def build(rs):
        flat = np.concatenate([np.zeros(0, dtype=dt)] + list(rs)).astype(dt)
        return build_ra(buffer_layout(flat, len(rs)), [len(r) for r in rs])
    mode = mode % LAZY_MODES
    if mode == 0:
        return build(rows)
    if mode == 1:      # reversed parent, reversed back by a negative-step row slice
        return build(rows[::-1])[::-1]
    if mode == 2:      # parent with extra rows in between, picked by an index list
        parent, idx = [], []
        for r in rows:
            parent.append(np.concatenate([r, junk]))
            idx.append(len(parent))
            parent.append(r)
        parent.append(junk)
        return build(parent)[idx]
    if mode == 3:      # column-padded parent, column slice
        return build([np.concatenate([junk, r, junk, junk]) for r in rows])[:, 1:-2]
    if mode == 4:      # row mask over a parent with a junk row first and last
        parent = [junk] + rows + [junk]
        mask = np.array([False] + [True] * n + [False])
        return build(parent)[mask]
    if mode == 5:      # junk interleaved between the cells, column slice with step 2 (compounded column step)
        def weave(r):
            out = np.empty(2 * len(r), dtype=dt)
            out[0::2] = r
            out[1::2] = junk[0]
            return out
        return build([weave(r) for r in rows])[:, ::2]
    if mode == 6:      # every row stored backwards, column slice with step -1
        return build([r[::-1] for r in rows])[:, ::-1]
    # modes 7-11: not pending selections but *results* of public operations (whatever internal flags those leave behind)
    b = build(rows)
    if mode == 7:
        return b[...]
    if mode == 8:
        return b[()]
    if mode == 9:
        return np.maximum(b, b)
    if mode == 10:
        return b.astype(dt)
    if mode == 11:
        k = n // 2
        return np.concatenate([b[:k], b[k:]])
    # mode 12: an array made by zeros_like / ones_like / empty_like and then given the content through its flat view
    z = [np.zeros_like, np.ones_like, np.empty_like][n % 3](b)
    z.ravel()[...] = b.ravel()
    return z


# ---------------------------------------------------------------- observables (shared with C19)

def norm(v):
    """Normalise any returned value to comparable plain data: values, row lengths, dtype, kind."""
    from npstructures import RaggedArray
    if isinstance(v, RaggedArray):
        rows = [np.asarray(r).tolist() for r in v]
        return {"k": "ragged", "rows": rows, "lens": [int(x) for x in v.lengths], "n": len(v),
                "dt": str(v.dtype) if len(rows) else None}       # zero-row results are built as float64 by the library: not asserted
    if isinstance(v, np.ndarray):
        return {"k": "ndarray", "v": v.tolist(), "shape": list(v.shape), "dt": str(v.dtype) if (v.size or (v.ndim and v.shape[0])) else None}
    if isinstance(v, np.generic):
        return {"k": "scalar", "v": v.item(), "dt": str(v.dtype)}
    if isinstance(v, (tuple, list)):
        return [norm(x) for x in v]
    if isinstance(v, dict):
        return {str(k): norm(x) for k, x in v.items()}
    if isinstance(v, (bool, int, float, str)) or v is None:
        return v
    return repr(v)


def observe(f, *a, **k):
    """outcome of a library call as comparable data; refusals by kind only"""
    try:
        return {"ok": norm(f(*a, **k))}
    except Exception as e:  # noqa: BLE001
        return {"refused": type(e).__name__}


def same(a, b):
    """deep equality with NaN == NaN"""
    if isinstance(a, float) or isinstance(b, float):
        return same_scalar(a, b) and isinstance(a, (int, float)) and isinstance(b, (int, float))
    if isinstance(a, dict) and isinstance(b, dict):
        return a.keys() == b.keys() and all(same(a[k], b[k]) for k in a)
    if isinstance(a, list) and isinstance(b, list):
        return len(a) == len(b) and all(same(x, y) for x, y in zip(a, b))
    return type(a) == type(b) and a == b


def same_outcome(o1, o2):
    """two observe() results: both refused (any kind) or both returned equal data"""
    if "refused" in o1 or "refused" in o2:
        return "refused" in o1 and "refused" in o2
    return same(o1["ok"], o2["ok"])


def diff_obs(exp, got, path=""):
    """first differing path between two normalised observables (for reports)"""
    if isinstance(exp, dict) and isinstance(got, dict):
        for k in sorted(set(exp) | set(got)):
            if k not in exp or k not in got:
                return f"{path}/{k} (missing on one side)"
            d = diff_obs(exp[k], got[k], f"{path}/{k}")
            if d:
                return d
        return None
    if isinstance(exp, list) and isinstance(got, list) and len(exp) == len(got):
        for i, (x, y) in enumerate(zip(exp, got)):
            d = diff_obs(x, y, f"{path}[{i}]")
            if d:
                return d
        return None
    return None if same(exp, got) else f"{path}: expected {exp!r} got {got!r}"


LAYOUTS = ["C", "C", "F", "T", "strided", "reversed"]


def layout(mat, how):
    """the same matrix (same values, same shape) in another memory layout"""
    if how == "F":
        return np.asfortranarray(mat)
    if how == "T":                      # transposed view of the transposed copy
        return np.ascontiguousarray(mat.T).T
    if how == "strided":                # every second row / column of a larger buffer
        big = np.zeros((2 * mat.shape[0] + 1, 2 * mat.shape[1] + 1), dtype=mat.dtype)
        big[1::2, 1::2] = mat
        return big[1::2, 1::2]
    if how == "reversed":
        return np.ascontiguousarray(mat[::-1, ::-1])[::-1, ::-1]
    return mat
