"""Straight-line programs over the RaggedArray API (shared by C06 and C10).

A program is plain data: {"lens": [...], "steps": [...]}.  Operands of a step are *templates*
fitted to the live state at run time (variable reference = k mod #live variables, list / mask
selectors folded onto the referenced array's row count).  The interpreter decides whether a
step is applicable and otherwise skips it (counted); every draw is therefore a valid program.

Several *worlds* execute the same program in lock-step:
  lazy   - every result is kept exactly as the library returned it (possibly a pending view)
  fresh  - every intermediate RaggedArray is replaced by a freshly constructed array with the
           same rows and dtype (results of the whole-array forms a[...] / a[()] stay aliases)
Applicability decisions (row counts, selection shapes) are read from a fresh world only, so that
deciding never touches a lazy value.  The known finding K1 (a write to X while a never
materialised selection over X's buffer is live) is steered around using the public
`is_contigous` flag of world 0 and the interpreter's own derivation bookkeeping.
"""
import numpy as np

from . import oracle
from .core import Violation
from .oracle import norm, same, py_sel, jsonable, lazy_ra

READ_KINDS = ["repr", "str", "iter", "tolist", "ravel", "meta", "index-slice", "index-rowcol", "row0", "ufunc", "reduce",
              "concat", "unique", "nonzero", "colsum", "padded"]


class World:
    def __init__(self, name, fresh):
        self.name = name
        self.fresh = fresh
        self.vars = []
        self.obs = []

    def add(self, x, alias):
        from npstructures import RaggedArray
        if self.fresh and not alias:
            rows = [np.asarray(r) for r in x]
            lens = [len(r) for r in rows]
            flat = np.concatenate([np.zeros(0, dtype=x.dtype)] + rows).astype(x.dtype)
            x = RaggedArray(flat.copy(), lens)
        self.vars.append(x)


def fit_rsel(t, n, norepeat=False):
    """row-selector template -> JSON selector valid as a *type* for n rows (ints may still be out of range by design)"""
    k = t[0]
    if k == "l":
        if n == 0:
            return ["l", [], "int64"]
        idx = [i % (2 * n) - n for i in t[1]]
        if norepeat:
            seen, out = set(), []
            for i in idx:
                if i % n not in seen:
                    seen.add(i % n)
                    out.append(i)
            idx = out
        return ["l", idx, t[2] if idx else "int64"]
    if k == "m":
        return ["m", [bool(t[1][i % len(t[1])]) for i in range(n)], bool(t[2]) if len(t) > 2 else True]   # numpy mask or list of bools
    return t


def do_read(v, kind):
    """a read-only operation; its result is discarded"""
    if kind == "repr":
        repr(v)
    elif kind == "str":
        str(v)
    elif kind == "iter":
        list(v)
    elif kind == "tolist":
        v.tolist()
    elif kind == "ravel":
        v.ravel()
    elif kind == "meta":
        (len(v), v.size, v.shape, v.dtype, v.lengths)
    elif kind == "index-slice":
        v[::2].tolist()
    elif kind == "index-rowcol":
        v[0:1, 0:1].tolist()
    elif kind == "row0":
        v[0]
    elif kind == "ufunc":
        (v + 1).tolist()
    elif kind == "reduce":
        v.sum(axis=-1)
    elif kind == "concat":
        np.concatenate([v, v]).tolist()
    elif kind == "unique":
        np.unique(v, axis=-1)
    elif kind == "nonzero":
        np.nonzero(v)
    elif kind == "colsum":
        v.sum(axis=0)
    elif kind == "padded":
        v.as_padded_matrix()


class Interp:
    def __init__(self, worlds, ref, ctx, steer_k1=True):
        self.worlds = worlds          # worlds[0] is the lazy / un-inspected world used for K1 steering
        self.ref = ref                # a fresh world: the only one consulted for applicability decisions
        self.ctx = ctx
        self.steer = steer_k1
        self.books = [{"fam": [], "pend": []} for _ in worlds]   # derivation bookkeeping per compared world
        self.fam = self.books[0]["fam"]
        self.pend = self.books[0]["pend"]
        self.depth = []               # number of stacked pending selections at creation
        self.colstep = []             # created by a column slice with step not in (None, 1)
        self.constructed = set()      # variables built by the RaggedArray constructor: never a pending selection, whatever flag they carry
        self.next_fam = 0
        self.nontrivial = False
        self.executed = 0
        self.aborted = False

    # ------------------------------------------------------------ bookkeeping
    def new_family(self):
        self.next_fam += 1
        return self.next_fam

    def start(self, lens):
        from npstructures import RaggedArray
        flat = np.array([1000 * i + j for i, l in enumerate(lens) for j in range(l)], dtype=np.int64)
        for w in self.all_worlds():
            w.vars.append(RaggedArray(flat.copy(), list(lens)))
        f = self.new_family()
        for b in self.books:
            b["fam"].append(f)
            b["pend"].append(False)
        self.depth.append(0)
        self.colstep.append(False)

    def all_worlds(self):
        ws = list(self.worlds)
        if self.ref not in ws:
            ws.append(self.ref)
        return ws

    def refresh(self):
        for w, b in zip(self.worlds, self.books):
            for k, v in enumerate(w.vars[:len(b["pend"])]):
                now = (not v.is_contigous) and k not in self.constructed
                if b["pend"][k] and not now:
                    b["fam"][k] = self.new_family()
                    if b is self.books[0]:
                        self.depth[k] = 0
                        self.colstep[k] = False
                b["pend"][k] = now

    def k1_trigger(self, v):
        """a write to var v while, in some compared world, a never-materialised selection over v's buffer is live"""
        for b in self.books:
            if not b["pend"][v] and any(b["pend"][j] and b["fam"][j] == b["fam"][v] for j in range(len(b["fam"])) if j != v):
                return True
        return False

    def nlive(self):
        return len(self.ref.vars)

    def ref_lens(self, k):
        return [int(x) for x in self.ref.vars[k].lengths]

    def fit_col(self, v, rs, j):
        """fold an integer column template onto the shortest selected row (read from the fresh world), keeping the
        possibility of being out of range by one on either side: mostly-valid columns are what exercises view geometry"""
        try:
            sel = self.ref.vars[v][py_sel(rs)]
            lens = [int(x) for x in sel.lengths] if hasattr(sel, "lengths") else [len(sel)]
        except Exception:  # noqa: BLE001 - the row selector itself is refused: leave the column as drawn
            return j
        if not lens:
            return j
        mn = min(lens)
        return j % (2 * mn + 2) - mn - 1

    # ------------------------------------------------------------ step resolution
    def resolve(self, step):
        """-> (resolved step, target var, kind) or None when not applicable"""
        op = step[0]
        n = self.nlive()
        v = step[1] % n
        lens = self.ref_lens(v)
        nr = len(lens)
        if op == "index":
            rs = fit_rsel(step[2], nr)
            cs = step[3]
            if cs is not None and cs[0] == "i":
                cs = ["i", self.fit_col(v, rs, cs[1]), cs[2]]
            return ["index", v, rs, cs]
        if op == "assign":
            rs = fit_rsel(step[2], nr, norepeat=True)
            cs = step[3]
            # shape of the selection, from the fresh world
            val = ["scalar", -7]
            try:
                r = self.ref.vars[v]
                sel = r[py_sel(rs)] if cs is None else r[py_sel(rs), py_sel(cs)]
                from npstructures import RaggedArray
                if isinstance(sel, RaggedArray):
                    slens = [int(x) for x in sel.lengths]
                    if step[4] == "column":
                        val = ["column", [-(100 + t) for t in range(len(slens))]]
                    elif step[4] == "ragged":
                        val = ["ragged", slens]
                    elif step[4] == "ragged-lazy":
                        val = ["ragged-lazy", slens]
                    elif step[4] == "flat":
                        val = ["flat", sum(slens)]
                elif step[4] == "flat" and np.ndim(sel) == 1:
                    val = ["flat", int(np.size(sel))]
            except Exception:  # noqa: BLE001 - the index itself is refused; the assignment must be refused as well
                pass
            return ["assign", v, rs, cs, val]
        if op in ("ufunc2", "cat", "where2", "assign-from"):
            w = step[2] % n
            if op == "cat":
                return [op, v, w]
            if self.ref_lens(w) != lens:
                cands = [j for j in range(n) if j != v and self.ref_lens(j) == lens]
                if not cands:
                    return None
                w = cands[step[2] % len(cands)]
            return [op, v, w] + list(step[3:])
        if op in ("colvec", "colvecf"):
            col = [step[2][i % len(step[2])] for i in range(nr)]
            return [op, v, col, step[3], step[4]]
        if op == "rowwrite":
            if nr == 0:
                return None
            i = step[2] % (2 * nr) - nr
            if lens[i] == 0:
                return None
            return ["rowwrite", v, i, step[3] % lens[i], step[4]]
        if op in ("rowread", "fillrow"):
            return [op, v, step[2] % (2 * nr + 2) - nr - 1 if nr else 0] + list(step[3:])
        if op == "cell":
            i = step[2] % (2 * nr) - nr if nr else 0
            L = lens[i] if nr else 0
            j = step[3] % (2 * L + 2) - L - 1 if L else step[3] % 3 - 1
            return ["cell", v, i, j]
        if op == "colread":
            rs = fit_rsel(step[2], nr)
            return ["colread", v, rs, self.fit_col(v, rs, step[3])]
        if op == "maskselect":
            return ["maskselect", v, step[2], step[3]]
        if op == "rslice":
            starts = [step[2][i % len(step[2])] % (l + 1) for i, l in enumerate(lens)]
            ends = [s + (step[3][i % len(step[3])] % (l - s + 1)) for i, (s, l) in enumerate(zip(starts, lens))]
            return ["rslice", v, starts, ends]
        if op == "getcol":
            L = max(lens) if lens else 0
            if L == 0:
                return None
            return ["getcol", v, step[2] % L]
        if op == "reflat":
            # a second array constructed on (a strided / reversed view of) v's flat buffer; v must be materialised in every world
            if any(b["pend"][v] for b in self.books) or sum(lens) == 0:
                return None
            return ["reflat", v, step[2]]
        return [op, v] + list(step[2:])

    # ------------------------------------------------------------ execution in one world
    def execute(self, w, st):
        """-> ('var', RaggedArray, alias) | ('obs', data) ; raises on refusal"""
        from npstructures import RaggedArray, ragged_slice
        op = st[0]
        x = w.vars[st[1]]
        if op == "index":
            r = x[py_sel(st[2])] if st[3] is None else x[py_sel(st[2]), py_sel(st[3])]
            if isinstance(r, RaggedArray):
                return ("var", r, st[2][0] == "e" and st[3] is None)
            return ("obs", norm(r))
        if op == "alias":
            return ("var", x[...] if st[2] == "..." else x[()], True)
        if op == "reflat":
            flat = x.ravel()
            lens = [int(l) for l in x.lengths]
            if st[2] == "reversed":
                return ("var", RaggedArray(flat[::-1], lens[::-1]), True)
            if st[2] == "strided":
                m = (flat.size + 1) // 2
                return ("var", RaggedArray(flat[::2], [m // 2, m - m // 2]), True)
            return ("var", RaggedArray(flat, lens), True)
        if op == "ufunc1":
            k = st[2]
            r = -x if k == "neg" else x + 1 if k == "add1" else x * 2 if k == "mul2" else (x > 1001) if k == "gt" else abs(x) if k == "abs" else np.square(x)
            return ("var", r, False)
        if op == "ufunc2":
            y = w.vars[st[2]]
            r = x + y if st[3] == "add" else x - y if st[3] == "sub" else np.maximum(x, y)
            return ("var", r, False)
        if op in ("colvec", "colvecf"):
            col = np.array(st[2], dtype=np.int64 if op == "colvec" else np.float64).reshape(-1, 1)
            if st[3] == "left":
                r = col - x if st[4] == "sub" else col + x
            else:
                r = x - col if st[4] == "sub" else x + col
            return ("var", r, False)
        if op == "cat":
            return ("var", np.concatenate([x, w.vars[st[2]]]), False)
        if op == "sort":
            return ("var", x.sort(), False)
        if op == "cumsum":
            return ("var", np.cumsum(x, axis=-1), False)
        if op == "accumulate":
            return ("var", getattr(np, st[2]).accumulate(x, axis=-1), False)
        if op == "diff":
            return ("var", np.diff(x, n=st[2], axis=-1), False)
        if op == "unique":
            return ("var", np.unique(x, axis=-1), False)
        if op == "where":
            return ("var", np.where(x > st[2], x, -x), False)
        if op == "where2":
            return ("var", np.where(x > st[3], x, w.vars[st[2]]), False)
        if op == "astype":
            return ("var", x.astype(st[2]), False)
        if op == "like":
            return ("var", getattr(np, st[2])(x), False)
        if op == "subset":
            return ("var", x.subset(x > st[2]), False)
        if op == "rslice":
            return ("var", ragged_slice(x, np.array(st[2], dtype=np.int64), np.array(st[3], dtype=np.int64)), False)
        if op == "assign":
            kind = st[4][0]
            if kind == "scalar":
                val = st[4][1]
            elif kind == "column":
                val = np.array(st[4][1], dtype=np.int64).reshape(-1, 1)
            elif kind == "flat":
                val = np.array([-(100 + t) for t in range(st[4][1])], dtype=np.int64)
            else:
                slens = st[4][1]
                flat = np.array([-(100 + 50 * a + b) for a, l in enumerate(slens) for b in range(l)], dtype=np.int64)
                rows, c = [], 0
                for l in slens:
                    rows.append(flat[c:c + l])
                    c += l
                val = lazy_ra(rows, "int64", 1 if kind == "ragged-lazy" else 0)
            idx = py_sel(st[2]) if st[3] is None else (py_sel(st[2]), py_sel(st[3]))
            x[idx] = val
            return ("obs", "assigned")
        if op == "assign-from":
            y = w.vars[st[2]]
            x[...] = y
            return ("obs", "assigned")
        if op == "maskassign":
            x[x > st[2]] = st[3]
            return ("obs", "assigned")
        if op == "fill":
            x.fill(st[2])
            return ("obs", "filled")
        if op == "rowwrite":
            # a plain integer row index hands out a window on the array's own cells (as on a freshly built array):
            # writing through it changes the array
            r = x[st[2]]
            r[st[3]] = st[4]
            return ("obs", "row-written")
        # ---- observations
        if op == "rowread":
            return ("obs", norm(x[st[2]]))
        if op == "cell":
            return ("obs", norm(x[st[2], st[3]]))
        if op == "colread":
            return ("obs", norm(x[py_sel(st[2]), st[3]]))
        if op == "reduce":
            return ("obs", norm(getattr(x, st[2])(axis=-1)))
        if op == "reduce-none":
            return ("obs", norm(getattr(x, st[2])()))
        if op == "tolist":
            return ("obs", x.tolist())
        if op == "nonzero":
            return ("obs", norm(np.nonzero(x > st[2])))
        if op == "maskselect":
            return ("obs", norm(x[x > st[2]] if st[3] == "index" else x.subset(x > st[2])))
        if op == "padded":
            return ("obs", norm(x.as_padded_matrix(fill_value=st[2], side=st[3])))
        if op == "colsum":
            return ("obs", norm(x.sum(axis=0)))
        if op == "colmean":
            return ("obs", norm(x.mean(axis=0)))
        if op == "colcounts":
            return ("obs", norm(x.col_counts()))
        if op == "getcol":
            return ("obs", norm(x.get_column_values(st[2])))
        if op == "meta":
            return ("obs", [len(x), int(x.size), [int(t) for t in x.lengths], str(x.dtype) if x.size else None])
        if op == "iter":
            return ("obs", [np.asarray(r).tolist() for r in x])
        if op == "equals":
            return ("obs", bool(x.equals(w.vars[st[2] % len(w.vars)])))
        raise ValueError("unknown op %r" % (op,))

    # ------------------------------------------------------------ one step in all worlds
    def step(self, raw):
        st = self.resolve(raw)
        if st is None:
            self.ctx.skips += 1
            return
        op, v = st[0], st[1]
        writes = op in ("assign", "fill", "maskassign", "assign-from", "rowwrite")
        if writes and self.steer and self.k1_trigger(v):
            # region of known finding K1: a write to X while a never-materialised selection over X's buffer is live
            self.ctx.redirected += 1
            return
        if self.pend[v]:
            self.ctx.label("op-on-pending")
            if self.depth[v] >= 2:
                self.ctx.label("op-on-view-of-view")
                self.nontrivial = True
            if self.colstep[v]:
                self.ctx.label("op-on-stepped-columns")
                self.nontrivial = True
            if writes:
                self.ctx.label("write-into-pending")
                self.nontrivial = True
        self.ctx.label("op:" + op)
        outcomes = []
        for w in self.all_worlds():
            try:
                outcomes.append((w, self.execute(w, st)))
            except Exception as e:  # noqa: BLE001 - refusal
                outcomes.append((w, ("refused", type(e).__name__, str(e)[:120])))
        self.executed += 1
        if oracle.RECORDER is not None:   # C19: what world 0 observed, as comparable data
            o0 = outcomes[0][1]
            oracle.RECORDER.append([o0[0], o0[1] if o0[0] == "obs" else None])
        kinds = {o[0] for _, o in outcomes if _ in self.worlds}
        if len(kinds) > 1:
            raise Violation("worlds-disagree:status", step=st, outcomes={w.name: (o[0] if o[0] != "refused" else list(o)) for w, o in outcomes})
        kind = outcomes[0][1][0]
        ref_kind = [o for w, o in outcomes if w is self.ref][0][0]
        if ref_kind != kind:
            # only possible when the decision world is a third world (C10): the compared worlds agree with each other
            # but not with a freshly rebuilt world (a C06 matter).  Variables can no longer be kept aligned: stop here.
            self.ctx.label("aborted:decision-world-disagrees")
            self.aborted = True
            return
        if kind == "var":
            alias = outcomes[0][1][2]
            for w, o in outcomes:
                w.add(o[1], alias)
            self.refresh()
            nf = self.new_family()
            if op == "reflat":
                self.constructed.add(len(self.books[0]["fam"]))
            for w, b in zip(self.worlds, self.books):
                cp = (not w.vars[-1].is_contigous) and op != "reflat"
                b["fam"].append(b["fam"][v] if (alias or cp) else nf)
                b["pend"].append(cp)
            child_pending = self.pend[-1]
            self.depth.append((self.depth[v] + 1) if child_pending and op == "index" else 0)
            cs = st[3] if op == "index" else None
            self.colstep.append(bool(child_pending and ((cs is not None and cs[0] == "s" and cs[3] not in (None, 1)) or self.colstep[v])))
        else:
            if kind == "obs":
                vals = [o[1] for w, o in outcomes if w in self.worlds]
                for w, o in outcomes:
                    w.obs.append(o[1])
                if not all(same(vals[0], x) for x in vals[1:]):
                    raise Violation("worlds-disagree:observation", step=st, values={w.name: jsonable(o[1]) for w, o in outcomes if w in self.worlds})
            self.refresh()

    def final_compare(self):
        snaps = {}
        for w in self.worlds:
            out = []
            for x in w.vars:
                try:
                    out.append(norm(x))
                except Exception as e:  # noqa: BLE001
                    out.append({"unreadable": type(e).__name__ + ": " + str(e)[:100]})
            snaps[w.name] = out
        names = [w.name for w in self.worlds]
        if oracle.RECORDER is not None:
            oracle.RECORDER.append(["final", snaps[names[0]]])
        for other in names[1:]:
            for k, (a, b) in enumerate(zip(snaps[names[0]], snaps[other])):
                if not same(a, b):
                    raise Violation("worlds-disagree:final-content", var=k, **{names[0]: jsonable(a), other: jsonable(b)})


def run_program(prog, mode, ctx, reads=None, steer=True):
    """mode 'lazy-vs-fresh' (C06) or 'reads' (C10: world A plain, world B with extra read-only operations)"""
    if mode == "lazy-vs-fresh":
        L, F = World("lazy", False), World("fresh", True)
        it = Interp([L, F], F, ctx, steer)
    else:
        A, B, R = World("plain", False), World("with-reads", False), World("decide", True)
        it = Interp([A, B], R, ctx, steer)
    it.start(prog["lens"])
    reads = reads or []
    landed = 0
    for p, raw in enumerate(prog["steps"]):
        if mode == "reads":
            for (pos, vt, kind) in reads:
                if pos == p:
                    B = it.worlds[1]
                    if vt == "step":
                        # any non-writing operation of the program vocabulary, executed in world B only, result discarded
                        st_ = it.resolve(kind)
                        if st_ is None:
                            continue
                        k = st_[1]
                        was_pending = not B.vars[k].is_contigous
                        try:
                            r = it.execute(B, st_)
                            if r[0] == "var":
                                norm(r[1])          # look at the produced array as well
                        except Exception:  # noqa: BLE001 - a read may be refused; it still must have no effect
                            pass
                        ctx.label("read:op:" + st_[0])
                    else:
                        k = vt % len(B.vars)
                        was_pending = not B.vars[k].is_contigous
                        try:
                            do_read(B.vars[k], kind)
                        except Exception:  # noqa: BLE001
                            pass
                        ctx.label("read:" + kind)
                    if was_pending:
                        ctx.label("read-on-pending")
                        landed += 1
        it.step(raw)
        if it.aborted:
            break
    it.final_compare()
    return it, landed
