"""Shared runner pieces: Violation, Ctx, SubCheck, worker entry points.

A *case* is plain JSON data (lists, dicts, str, int, float, bool, None).  Strategies produce
cases, bodies interpret them; replay feeds a stored case to the same body without
Hypothesis.  Bodies raise Violation for a property violation; any other exception escaping
a body is a harness error (exit 2), never a VIOLATION.
"""
import collections
import hashlib
import json
import os
import time
import traceback
import zlib
from dataclasses import dataclass, field
from typing import Callable, Optional

import numpy as np


class Violation(Exception):
    def __init__(self, kind, **detail):
        super().__init__(kind)
        self.kind = kind
        self.detail = detail

    def payload(self):
        return {"kind": self.kind, "detail": jsonable(self.detail)}


def raised_in_library(e):
    """True if some frame of the exception's traceback lies in the npstructures tree under test"""
    repo = os.path.realpath(os.environ.get("VERIF_REPO", "/repo")) + os.sep + "npstructures" + os.sep
    tb = e.__traceback__
    while tb is not None:
        if os.path.realpath(tb.tb_frame.f_code.co_filename).startswith(repo):
            return True
        tb = tb.tb_next
    return False


def guard_body(body, case, ctx):
    """Run a body.  An exception that escapes it from inside the library (an operand construction or selection the body
    does outside its guarded calls was refused on a valid input) is a violation the owning check must report, not a harness
    error; an exception raised by harness code alone stays a harness error."""
    try:
        body(case, ctx)
    except Violation:
        raise
    except Exception as e:  # noqa: BLE001
        if raised_in_library(e):
            raise Violation("library-refused-a-valid-operand-construction", exception=f"{type(e).__name__}: {str(e)[:300]}") from e
        raise


class Ctx:
    """Per-case recorder: class labels, non-triviality, redirected draws."""
    __slots__ = ("labels", "nontrivial", "redirected", "skips")

    def __init__(self):
        self.labels = []
        self.nontrivial = False
        self.redirected = 0
        self.skips = 0

    def label(self, *names):
        self.labels.extend(names)

    def nt(self, cond=True):
        if cond:
            self.nontrivial = True


@dataclass
class SubCheck:
    name: str
    body: Callable                      # body(case, ctx)
    strategy: Optional[Callable] = None  # strategy(tier) -> SearchStrategy      (kind 'hyp')
    quick: int = 1000                   # examples per run, quick tier (all shards together)
    thorough: int = 50000
    shards_quick: int = 1
    shards_thorough: int = 16
    kind: str = "hyp"                   # 'hyp' | 'enum' | 'machine'
    chunks: Optional[Callable] = None   # chunks(tier) -> list of chunk descriptors (kind 'enum')
    cases: Optional[Callable] = None    # cases(chunk) -> iterator of cases         (kind 'enum')
    enum_tiers: tuple = ("thorough",)   # tiers in which an enumerator runs
    machine: Optional[Callable] = None  # machine(tier, sink) -> RuleBasedStateMachine subclass
    steps: int = 20                     # stateful_step_count
    finding_id: Optional[str] = None    # directed probe of a listed known finding
    doc: str = ""


def jsonable(x):
    """Best-effort conversion of observed values for reports (not for cases)."""
    if isinstance(x, dict):
        return {str(k): jsonable(v) for k, v in x.items()}
    if isinstance(x, (list, tuple)):
        return [jsonable(v) for v in x]
    if isinstance(x, np.ndarray):
        return {"ndarray": x.tolist() if x.dtype != object else repr(x), "dtype": str(x.dtype)}
    if isinstance(x, np.generic):
        return {"np": x.item() if not isinstance(x.item(), complex) else repr(x), "dtype": str(x.dtype)}
    if isinstance(x, (str, int, float, bool)) or x is None:
        return x
    if isinstance(x, slice):
        return ["slice", x.start, x.stop, x.step]
    return repr(x)


def canon(case):
    return json.dumps(case, sort_keys=True, separators=(",", ":"))


def h64(s):
    return int.from_bytes(hashlib.blake2b(s.encode(), digest_size=8).digest(), "little")


def derive_seed(*parts):
    return zlib.crc32(("|".join(str(p) for p in parts)).encode()) ^ (h64("|".join(str(p) for p in parts)) & 0x7FFFFFFF)


class Stats:
    def __init__(self, keep_samples=4):
        self.evaluations = 0
        self.hashes = set()
        self.labels = collections.Counter()
        self.samples = []
        self.keep = keep_samples
        self.redirected = 0
        self.skips = 0
        self.nontrivial_evals = 0

    def record(self, case_json, ctx):
        self.evaluations += 1
        self.redirected += ctx.redirected
        self.skips += ctx.skips
        for l in ctx.labels:
            self.labels[l] += 1
        if ctx.nontrivial:
            self.nontrivial_evals += 1
            h = h64(case_json)
            if h not in self.hashes:
                self.hashes.add(h)
                if len(self.samples) < self.keep or (h % 4096 == 0 and len(self.samples) < 3 * self.keep):
                    self.samples.append(json.loads(case_json))

    def result(self):
        return {
            "evaluations": self.evaluations,
            "hashes": np.fromiter(self.hashes, dtype=np.uint64, count=len(self.hashes)),
            "labels": dict(self.labels),
            "samples": self.samples,
            "redirected": self.redirected,
            "skips": self.skips,
            "nontrivial_evals": self.nontrivial_evals,
        }


def run_body(sc, case, stats=None):
    """Run one case through a body.  Returns None or a Violation."""
    ctx = Ctx()
    cj = canon(case)
    case = json.loads(cj)
    try:
        guard_body(sc.body, case, ctx)
    except Violation as v:
        if stats is not None:
            stats.record(cj, ctx)
        return v
    if stats is not None:
        stats.record(cj, ctx)
    return None


def load_module(pid):
    import importlib
    return importlib.import_module("vlib.props." + pid.lower())


def find_subcheck(mod, name):
    for sc in mod.SUBCHECKS:
        if sc.name == name:
            return sc
    raise KeyError(name)


def _hyp_settings(n, shrink=True, steps=None):
    from hypothesis import settings, HealthCheck, Phase
    kw = dict(max_examples=n, database=None, deadline=None, derandomize=False,
              report_multiple_bugs=False, suppress_health_check=list(HealthCheck),
              phases=[Phase.generate, Phase.shrink] if shrink else [Phase.generate])
    if steps is not None:
        kw["stateful_step_count"] = steps
    return settings(**kw)


def work(task):
    """Pool entry.  task = dict(pid, sub, tier, seed, shard, n, chunk)."""
    t0 = time.time()
    out = {"sub": task["sub"], "shard": task["shard"], "violation": None, "error": None}
    try:
        mod = load_module(task["pid"])
        sc = find_subcheck(mod, task["sub"])
        stats = Stats()
        if sc.kind == "hyp":
            _work_hyp(sc, task, stats, out)
        elif sc.kind == "enum":
            _work_enum(sc, task, stats, out)
        elif sc.kind == "machine":
            _work_machine(sc, task, stats, out)
        elif sc.kind == "atheris":
            r = _work_atheris(sc, task, out)
            out.update(r)
            out["wall"] = time.time() - t0
            return out
        else:
            raise ValueError(sc.kind)
        out.update(stats.result())
    except BaseException:
        out["error"] = traceback.format_exc()
        out.setdefault("evaluations", 0)
    out["wall"] = time.time() - t0
    return out


def _work_hyp(sc, task, stats, out):
    from hypothesis import given, seed
    strat = sc.strategy(task["tier"])
    last = {}

    def test(case):
        cj = canon(case)
        case = json.loads(cj)
        ctx = Ctx()
        try:
            guard_body(sc.body, case, ctx)
        except Violation as v:
            last["case"] = case
            last["v"] = v
            stats.record(cj, ctx)
            raise
        stats.record(cj, ctx)

    s = derive_seed(task["seed"], task["pid"], sc.name, task["shard"])
    t = seed(s)(_hyp_settings(task["n"])(given(strat)(test)))
    try:
        t()
    except Violation:
        out["violation"] = {"case": last["case"], **last["v"].payload()}
    except BaseException as e:  # noqa: BLE001
        # A violation that Hypothesis could not reproduce when it re-ran the case in the same process (the library changed
        # process-wide state the first time only) is still a violation of the recorded case: report it, marked as such.
        from hypothesis.errors import Flaky
        if isinstance(e, Flaky) and "v" in last:
            pay = last["v"].payload()
            pay["detail"] = dict(pay["detail"], note="not reproducible within the same process: the first evaluation changed process-wide state")
            out["violation"] = {"case": last["case"], **pay}
        else:
            raise


def _work_enum(sc, task, stats, out):
    for case in sc.cases(task["chunk"]):
        v = run_body(sc, case, stats)
        if v is not None:
            # keep the smallest (by serialised length) failing case of the chunk
            cj = canon(case)
            if out["violation"] is None or len(cj) < out["_vlen"]:
                out["violation"] = {"case": json.loads(cj), **v.payload()}
                out["_vlen"] = len(cj)
    out.pop("_vlen", None)


def _work_machine(sc, task, stats, out):
    from hypothesis import seed
    from hypothesis.stateful import run_state_machine_as_test
    last = {}

    def sink(trace, ctx, violation):
        cj = canon(trace)
        stats.record(cj, ctx)
        if violation is not None:
            last["case"] = json.loads(cj)
            last["v"] = violation

    cls = sc.machine(task["tier"], sink)
    s = derive_seed(task["seed"], task["pid"], sc.name, task["shard"])
    try:
        run_state_machine_as_test(seed(s)(cls), settings=_hyp_settings(task["n"], steps=sc.steps))
    except Violation:
        out["violation"] = {"case": last["case"], **last["v"].payload()}


def _work_atheris(sc, task, out):
    """coverage-guided campaign in a subprocess (atheris.Fuzz() never returns); scratch dir under /tmp, removed afterwards"""
    import shutil
    import subprocess
    import sys
    import tempfile
    here = os.path.dirname(os.path.dirname(os.path.abspath(__file__)))
    wd = tempfile.mkdtemp(prefix="verif-atheris-")
    empty = {"evaluations": 0, "hashes": np.zeros(0, np.uint64), "labels": {}, "samples": [], "redirected": 0, "skips": 0, "nontrivial_evals": 0}
    try:
        s = derive_seed(task["seed"], task["pid"], sc.name, task["shard"]) % (2**31 - 1) + 1
        p = subprocess.run([sys.executable, "-W", "ignore", "-m", "vlib.fuzz_atheris", task["pid"], sc.name, str(task["n"]), str(s), wd],
                           cwd=here, capture_output=True, text=True)
        stats_file = os.path.join(wd, "stats.json")
        if os.path.exists(stats_file):
            r = json.load(open(stats_file))
            r["hashes"] = np.array(r["hashes"], dtype=np.uint64)
        else:
            r = dict(empty)
        if p.returncode == 3 and os.path.exists(os.path.join(wd, "violation.json")):
            out["violation"] = json.load(open(os.path.join(wd, "violation.json")))
        elif p.returncode != 0:
            if "No module named 'atheris'" in p.stderr or "No module named atheris" in p.stderr:
                r = dict(empty)
                r["labels"] = {"skipped:atheris-not-installed": 1}
            else:
                out["error"] = "atheris subprocess exit %d\n%s" % (p.returncode, (p.stdout + p.stderr)[-1500:])
        return r
    finally:
        shutil.rmtree(wd, ignore_errors=True)
