"""Coverage-guided campaign: atheris (libFuzzer) drives a sub-check's Hypothesis strategy through fuzz_one_input.

Run as a subprocess by the runner (atheris.Fuzz() never returns):
    python -m vlib.fuzz_atheris <PID> <subcheck> <runs> <seed> <workdir>
The semantic oracle is inside the target: the owning sub-check's body.  On a Violation the shrunk... (libFuzzer does not shrink
structurally) failing case is written to <workdir>/violation.json and the process exits with status 3; the runner then
re-shrinks nothing but reports the case as found (replayable with ./check <PID> --replay).  Statistics are flushed to
<workdir>/stats.json every 50 evaluations because atexit handlers do not run under libFuzzer.
Exit status: 0 = campaign finished, 3 = violation written, anything else = harness error.
"""
import json
import os
import sys

HERE = os.path.dirname(os.path.dirname(os.path.abspath(__file__)))
sys.path.insert(0, os.path.join(HERE, ".deps"))


def main():
    pid, subname, runs, seed, workdir = sys.argv[1], sys.argv[2], int(sys.argv[3]), int(sys.argv[4]), sys.argv[5]
    import atheris
    with atheris.instrument_imports(include=["npstructures"]):
        import npstructures  # noqa: F401
        import npstructures.raggedarray  # noqa: F401
        import npstructures.raggedshape  # noqa: F401
        import npstructures.arrayfunctions  # noqa: F401
    repo = os.path.realpath(os.environ.get("VERIF_REPO", "/repo"))
    if not os.path.realpath(npstructures.__file__).startswith(repo + os.sep):
        print("HARNESS-ERROR: npstructures imported from", npstructures.__file__)
        os._exit(2)
    from hypothesis import given, settings, HealthCheck
    from . import core
    mod = core.load_module(pid)
    sc = core.find_subcheck(mod, subname)
    stats = core.Stats(keep_samples=3)
    state = {"n": 0}

    def flush():
        r = stats.result()
        r["hashes"] = [int(h) for h in r["hashes"]]
        with open(os.path.join(workdir, "stats.json.tmp"), "w") as f:
            json.dump(r, f)
        os.replace(os.path.join(workdir, "stats.json.tmp"), os.path.join(workdir, "stats.json"))

    def test(case):
        cj = core.canon(case)
        case = json.loads(cj)
        ctx = core.Ctx()
        try:
            core.guard_body(sc.body, case, ctx)
        except core.Violation as v:
            stats.record(cj, ctx)
            flush()
            with open(os.path.join(workdir, "violation.json"), "w") as f:
                json.dump({"case": case, **v.payload()}, f)
            sys.stdout.flush()
            os._exit(3)
        stats.record(cj, ctx)
        state["n"] += 1
        if state["n"] % 50 == 0:
            flush()

    t = settings(database=None, deadline=None, suppress_health_check=list(HealthCheck))(given(sc.strategy("quick"))(test))
    fuzz = t.hypothesis.fuzz_one_input

    def one(data):
        fuzz(data)

    corpus = os.path.join(workdir, "corpus")
    os.makedirs(corpus, exist_ok=True)
    flush()
    atheris.Setup([sys.argv[0], corpus, f"-runs={runs}", f"-seed={seed if seed else 1}", "-max_len=4096", "-print_final_stats=0", "-verbosity=0"], one)
    atheris.Fuzz()


if __name__ == "__main__":
    main()
